//! C24 – expressions parse by the documented precedence and associativity.
//!
//! Exhaustive enumeration of expression trees (all binary operators to depth 2, one operator per
//! precedence level to depth 3 / operator pairs to depth 4, prefix and postfix stacks of height
//! <= 3 at operand positions), printed with exactly the parentheses the precedence table of the
//! statement requires (and once more fully parenthesised), parsed by the real parser and read
//! back through the real `ast` accessors. The model is the table; the tree read back must equal
//! the tree printed, with zero syntax errors.

use std::collections::BTreeSet;

use ast::{AstNode, AstToken};
use rayon::prelude::*;
use serde_json::json;
use syntax::SyntaxTree;

use crate::common::*;

#[derive(Clone, Debug, PartialEq, Eq, Hash)]
pub enum Ex {
    Var(&'static str),
    Int(&'static str),
    Bin(&'static str, Box<Ex>, Box<Ex>),
    Un(&'static str, Box<Ex>),
    Ref(bool, Box<Ex>),
    Call(Box<Ex>, Vec<Ex>),
    Index(Box<Ex>, Box<Ex>),
    Field(Box<Ex>, &'static str),
    Try(Box<Ex>),
    Cast(Box<Ex>, Box<Ex>),
    Deref(Box<Ex>),
    Other(String),
}

/// the table of the statement: `||` < `&&` < comparisons < `+ - | ~` < `* / % & << >>`
pub fn level(op: &str) -> u8 {
    match op {
        "||" => 1,
        "&&" => 2,
        "==" | "!=" | "<" | ">" | "<=" | ">=" => 3,
        "+" | "-" | "|" | "~" => 4,
        "*" | "/" | "%" | "&" | "<<" | ">>" => 5,
        _ => panic!("not a binary operator: {op}"),
    }
}

pub const ALL_OPS: [&str; 18] = [
    "||", "&&", "==", "!=", "<", ">", "<=", ">=", "+", "-", "|", "~", "*", "/", "%", "&", "<<", ">>",
];

impl Ex {
    fn is_prefix(&self) -> bool {
        matches!(self, Ex::Un(..) | Ex::Ref(..))
    }
    fn is_postfix(&self) -> bool {
        matches!(
            self,
            Ex::Call(..) | Ex::Index(..) | Ex::Field(..) | Ex::Try(..) | Ex::Cast(..) | Ex::Deref(..)
        )
    }
    fn is_bin(&self) -> bool {
        matches!(self, Ex::Bin(..))
    }

    /// `full`: parenthesise every compound sub-expression; otherwise only what the table requires
    pub fn print(&self, full: bool, out: &mut String) {
        let paren = |e: &Ex, needed: bool, out: &mut String| {
            let compound = !matches!(e, Ex::Var(_) | Ex::Int(_));
            if needed || (full && compound) {
                out.push('(');
                e.print(full, out);
                out.push(')');
            } else {
                e.print(full, out);
            }
        };
        match self {
            Ex::Var(n) | Ex::Int(n) => out.push_str(n),
            Ex::Other(s) => out.push_str(s),
            Ex::Bin(op, l, r) => {
                let lv = level(op);
                // left-associative: the left child may be of the same level, the right may not
                paren(l, matches!(&**l, Ex::Bin(o, ..) if level(o) < lv), out);
                out.push(' ');
                out.push_str(op);
                out.push(' ');
                paren(r, matches!(&**r, Ex::Bin(o, ..) if level(o) <= lv), out);
            }
            // the statement does not order prefix against postfix operators: always explicit
            Ex::Un(op, e) => {
                out.push_str(op);
                paren(e, e.is_bin() || e.is_postfix() || e.is_prefix(), out);
            }
            Ex::Ref(m, e) => {
                out.push_str(if *m { "^mut " } else { "^" });
                paren(e, e.is_bin() || e.is_postfix() || e.is_prefix(), out);
            }
            Ex::Call(c, args) => {
                paren(c, c.is_bin() || c.is_prefix(), out);
                out.push('(');
                for (i, a) in args.iter().enumerate() {
                    if i > 0 {
                        out.push_str(", ");
                    }
                    a.print(full, out);
                }
                out.push(')');
            }
            Ex::Index(b, i) => {
                paren(b, b.is_bin() || b.is_prefix(), out);
                out.push('[');
                i.print(full, out);
                out.push(']');
            }
            Ex::Field(b, n) => {
                paren(b, b.is_bin() || b.is_prefix(), out);
                out.push('.');
                out.push_str(n);
            }
            Ex::Try(b) => {
                paren(b, b.is_bin() || b.is_prefix(), out);
                out.push_str(".try");
            }
            Ex::Cast(t, e) => {
                paren(t, t.is_bin() || t.is_prefix(), out);
                out.push_str(".(");
                e.print(full, out);
                out.push(')');
            }
            Ex::Deref(b) => {
                paren(b, b.is_bin() || b.is_prefix(), out);
                out.push('^');
            }
        }
    }
}

fn leak(s: &str) -> &'static str {
    // only for the handful of identifier / operator spellings that occur in test trees
    thread_local! {
        static POOL: std::cell::RefCell<std::collections::HashMap<String, &'static str>> = Default::default();
    }
    POOL.with(|p| {
        let mut p = p.borrow_mut();
        if let Some(v) = p.get(s) {
            return *v;
        }
        let v: &'static str = Box::leak(s.to_string().into_boxed_str());
        p.insert(s.to_string(), v);
        v
    })
}

/// reads an `ast::Expr` back into an `Ex`, dropping parentheses
pub fn read_back(e: ast::Expr, tree: &SyntaxTree) -> Ex {
    let sub = |o: Option<ast::Expr>| -> Box<Ex> {
        Box::new(match o {
            Some(e) => read_back(e, tree),
            None => Ex::Other("<missing>".into()),
        })
    };
    match e {
        ast::Expr::Paren(p) => *sub(p.expr(tree)),
        ast::Expr::VarRef(v) => Ex::Var(leak(v.name(tree).map(|n| n.text(tree)).unwrap_or("<noname>"))),
        ast::Expr::IntLiteral(i) => Ex::Int(leak(i.text(tree).trim())),
        ast::Expr::Binary(b) => Ex::Bin(
            leak(b.op(tree).map(|o| o.text(tree)).unwrap_or("<noop>")),
            sub(b.lhs(tree)),
            sub(b.rhs(tree)),
        ),
        ast::Expr::Unary(u) => Ex::Un(
            leak(u.op(tree).map(|o| o.text(tree)).unwrap_or("<noop>")),
            sub(u.expr(tree)),
        ),
        ast::Expr::Ref(r) => Ex::Ref(r.mutable(tree).is_some(), sub(r.expr(tree))),
        ast::Expr::Call(c) => Ex::Call(
            sub(c.callee(tree)),
            c.arg_list(tree)
                .map(|l| l.args(tree).map(|a| *sub(a.value(tree))).collect())
                .unwrap_or_default(),
        ),
        ast::Expr::IndexExpr(i) => Ex::Index(
            sub(i.array(tree).and_then(|s| s.value(tree))),
            sub(i.index(tree).and_then(|s| s.value(tree))),
        ),
        ast::Expr::Path(p) => Ex::Field(
            sub(p.previous_part(tree)),
            leak(p.field_name(tree).map(|n| n.text(tree)).unwrap_or("<noname>")),
        ),
        ast::Expr::Propagate(p) => Ex::Try(sub(p.expr(tree))),
        ast::Expr::Cast(c) => Ex::Cast(sub(c.ty(tree).and_then(|t| t.expr(tree))), sub(c.expr(tree))),
        ast::Expr::Deref(d) => Ex::Deref(sub(d.pointer(tree))),
        other => Ex::Other(format!("{other:?}")),
    }
}

#[derive(Default)]
struct Acc {
    trees: u64,
    parses: u64,
    shapes: BTreeSet<u64>,
    failures: Failures,
    samples: Vec<String>,
}

fn check_tree(t: &Ex, acc: &mut Acc) {
    acc.trees += 1;
    for full in [false, true] {
        let mut text = String::from("x :: ");
        t.print(full, &mut text);
        text.push(';');
        acc.parses += 1;
        let res = catch(|| {
            let tokens = lexer::lex(&text);
            parser::verif::set_fuel(Some(
                crate::parse_mc::FUEL_BASE + crate::parse_mc::FUEL_PER_TOKEN * tokens.len() as u64,
            ));
            let parse = parser::parse_source_file(&tokens, &text);
            parser::verif::set_fuel(None);
            let errors = parse.errors().len();
            let tree = parse.syntax_tree();
            let root = ast::Root::cast(tree.root(), tree).unwrap();
            let value = root.defs(tree).next().and_then(|d| d.value(tree));
            (errors, value.map(|v| read_back(v, tree)))
        });
        let api = if full { "parse(fully parenthesised)" } else { "parse(minimal parentheses)" };
        match res {
            Err(p) => acc.failures.push(Failure {
                signature: panic_class(&p),
                input: text.clone(),
                api: api.into(),
                detail: p.message,
            }),
            Ok((errors, got)) => {
                if errors > 0 {
                    acc.failures.push(Failure {
                        signature: "syntax-errors-on-a-valid-expression".into(),
                        input: text.clone(),
                        api: api.into(),
                        detail: format!("{errors} syntax errors"),
                    });
                } else if got.as_ref() != Some(t) {
                    acc.failures.push(Failure {
                        signature: "parsed-tree-differs-from-the-table".into(),
                        input: text.clone(),
                        api: api.into(),
                        detail: format!("expected {t:?}, parser built {got:?}"),
                    });
                } else if !full && acc.samples.len() < 2 && text.len() > 24 {
                    acc.samples.push(format!("{text}  =>  {t:?}"));
                }
            }
        }
    }
    if acc.shapes.len() < 100_000 {
        acc.shapes.insert(fxhash(&format!("{t:?}")));
    }
}

fn merge(mut a: Acc, b: Acc) -> Acc {
    a.trees += b.trees;
    a.parses += b.parses;
    if a.shapes.len() < 200_000 {
        a.shapes.extend(b.shapes);
    }
    a.failures.merge(b.failures);
    if a.samples.len() < 4 {
        a.samples.extend(b.samples.into_iter().take(1));
    }
    a
}

fn bx(e: &Ex) -> Box<Ex> {
    Box::new(e.clone())
}

/// every prefix / postfix wrapper applied to `e`
fn wrappers(e: &Ex) -> Vec<Ex> {
    vec![
        Ex::Un("-", bx(e)),
        Ex::Un("+", bx(e)),
        Ex::Un("!", bx(e)),
        Ex::Un("~", bx(e)),
        Ex::Ref(false, bx(e)),
        Ex::Ref(true, bx(e)),
        Ex::Call(bx(e), vec![Ex::Var("b"), Ex::Int("2")]),
        Ex::Call(bx(e), vec![]),
        Ex::Index(bx(e), Box::new(Ex::Int("1"))),
        Ex::Field(bx(e), "b"),
        Ex::Try(bx(e)),
        Ex::Cast(bx(e), Box::new(Ex::Var("b"))),
        Ex::Deref(bx(e)),
    ]
}

/// the number of trees of binary depth <= `depth` over `ops` and `leaves`
fn count(ops: usize, leaves: usize, depth: u32) -> u64 {
    let mut c = leaves as u64;
    for _ in 0..depth {
        c = leaves as u64 + ops as u64 * c * c;
    }
    c
}

/// the `idx`-th tree of binary depth <= `depth` (a bijection from 0..count(..))
fn decode(ops: &[&'static str], leaves: &[Ex], depth: u32, idx: u64) -> Ex {
    if idx < leaves.len() as u64 || depth == 0 {
        return leaves[idx as usize].clone();
    }
    let sub = count(ops.len(), leaves.len(), depth - 1);
    let mut i = idx - leaves.len() as u64;
    let r = i % sub;
    i /= sub;
    let l = i % sub;
    i /= sub;
    Ex::Bin(
        ops[i as usize],
        Box::new(decode(ops, leaves, depth - 1, l)),
        Box::new(decode(ops, leaves, depth - 1, r)),
    )
}

/// a family given by a generator instead of a materialised list
struct Gen {
    name: String,
    ops: Vec<&'static str>,
    leaves: Vec<Ex>,
    depth: u32,
}

pub fn run(args: &Args) -> ! {
    let mut report = Report::new("C24", args);
    let quick = args.tier == Tier::Quick;
    let a = Ex::Var("a");
    let one = Ex::Int("1");
    let mut families: Vec<(String, Vec<Ex>)> = Vec::new();

    // 1. all 18 operators, depth 2 (operator pairs in both child positions), wrapped operands
    let mut leaves1 = vec![a.clone(), one.clone()];
    leaves1.extend(wrappers(&a));
    let mut f1 = Vec::new();
    let simple: Vec<Ex> = {
        let mut v = leaves1.clone();
        for op in ALL_OPS {
            v.push(Ex::Bin(op, bx(&a), bx(&one)));
        }
        v
    };
    for op in ALL_OPS {
        for l in &simple {
            for r in &simple {
                f1.push(Ex::Bin(op, bx(l), bx(r)));
            }
        }
    }
    families.push(("all-operators-depth-2".into(), f1));

    // 2. one operator per level (plus a second one on two levels)
    let mut gens: Vec<Gen> = Vec::new();
    gens.push(Gen {
        name: "level-representatives(7 ops, 3 leaves)-depth-2".into(),
        ops: vec!["||", "&&", "==", "<", "+", "-", "*"],
        leaves: vec![a.clone(), Ex::Un("-", bx(&a)), Ex::Field(bx(&a), "b")],
        depth: 2,
    });
    gens.push(Gen {
        name: "level-representatives(5 ops)-depth-3".into(),
        ops: vec!["||", "&&", "==", "+", "*"],
        leaves: vec![a.clone()],
        depth: 3,
    });

    // 3. operator pairs, deep: both associativity shapes of every pair at every position
    let pair_ops: [&'static str; 6] = ["||", "&&", "==", "+", "-", "*"];
    for (i, x) in pair_ops.iter().enumerate() {
        for y in &pair_ops[i..] {
            let ops: Vec<&'static str> = if x == y { vec![*x] } else { vec![*x, *y] };
            gens.push(Gen {
                name: format!("operator-pair({x},{y})"),
                ops,
                leaves: vec![a.clone()],
                depth: if quick { 3 } else { 4 },
            });
        }
    }
    if !quick {
        // every triple of level representatives to depth 3
        let reps5: [&'static str; 5] = ["||", "&&", "==", "+", "*"];
        for i in 0..5 {
            for j in i + 1..5 {
                for k in j + 1..5 {
                    gens.push(Gen {
                        name: format!("operator-triple({},{},{})", reps5[i], reps5[j], reps5[k]),
                        ops: vec![reps5[i], reps5[j], reps5[k]],
                        leaves: vec![a.clone(), one.clone()],
                        depth: 3,
                    });
                }
            }
        }
    }

    // 4. prefix / postfix stacks of height <= 3 at both operand positions of every level
    let mut stacks = vec![a.clone()];
    let mut frontier = vec![a.clone()];
    for _ in 0..3 {
        let mut next = Vec::new();
        for e in &frontier {
            next.extend(wrappers(e));
        }
        stacks.extend(next.iter().cloned());
        frontier = next;
    }
    let mut f4 = stacks.clone();
    for op in ["||", "&&", "<", "-", "*", "&", "~"] {
        for s in &stacks {
            f4.push(Ex::Bin(op, bx(s), bx(&one)));
            f4.push(Ex::Bin(op, bx(&one), bx(s)));
        }
    }
    // binary expressions inside postfix / prefix operands
    for op in ALL_OPS {
        let b = Ex::Bin(op, bx(&a), bx(&one));
        f4.extend(wrappers(&b));
        f4.push(Ex::Call(bx(&a), vec![b.clone(), b.clone()]));
        f4.push(Ex::Index(bx(&a), bx(&b)));
        f4.push(Ex::Cast(bx(&a), bx(&b)));
    }
    families.push(("prefix-postfix-stacks".into(), f4));

    // 5. compound expressions in argument / index / cast-operand position, nested once more and
    //    used as operands (in minimal and in full parenthesisation)
    let b = Ex::Var("b");
    let args: Vec<Ex> = vec![
        a.clone(),
        one.clone(),
        Ex::Index(bx(&a), bx(&one)),
        Ex::Field(bx(&a), "b"),
        Ex::Call(bx(&a), vec![b.clone(), Ex::Int("2")]),
        Ex::Un("-", bx(&a)),
        Ex::Ref(false, bx(&a)),
        Ex::Bin("+", bx(&a), bx(&one)),
        Ex::Bin("*", Box::new(Ex::Bin("+", bx(&a), bx(&one))), bx(&b)),
        Ex::Try(bx(&a)),
        Ex::Cast(bx(&a), bx(&b)),
        Ex::Deref(bx(&a)),
        Ex::Bin("<", bx(&a), bx(&b)),
        Ex::Bin("||", bx(&a), bx(&b)),
    ];
    let mut forms: Vec<Ex> = Vec::new();
    for x in &args {
        forms.push(Ex::Call(bx(&a), vec![x.clone()]));
        forms.push(Ex::Index(bx(&a), bx(x)));
        forms.push(Ex::Cast(bx(&a), bx(x)));
        for y in &args {
            forms.push(Ex::Call(bx(&a), vec![x.clone(), y.clone()]));
            forms.push(Ex::Call(Box::new(Ex::Field(bx(&a), "b")), vec![x.clone(), y.clone(), one.clone()]));
        }
    }
    let mut f5 = forms.clone();
    for f in &forms {
        // nested once more, and as an operand of every level
        f5.push(Ex::Call(bx(&b), vec![f.clone(), a.clone()]));
        f5.push(Ex::Call(bx(&b), vec![a.clone(), f.clone()]));
        f5.push(Ex::Index(bx(&b), bx(f)));
        f5.push(Ex::Un("-", bx(f)));
        f5.push(Ex::Ref(true, bx(f)));
        f5.push(Ex::Try(bx(f)));
        f5.push(Ex::Field(bx(f), "b"));
        for op in ["||", "&&", "<", "-", "*"] {
            f5.push(Ex::Bin(op, bx(f), bx(&one)));
            f5.push(Ex::Bin(op, bx(&one), bx(f)));
        }
    }
    families.push(("compound-arguments".into(), f5));

    let mut total = Acc::default();
    let mut bounds = Vec::new();
    for (name, trees) in &families {
        let acc = trees
            .par_iter()
            .fold(Acc::default, |mut acc, t| {
                check_tree(t, &mut acc);
                acc
            })
            .reduce(Acc::default, merge);
        bounds.push(json!({"family": name, "trees": trees.len()}));
        total = merge(total, acc);
    }
    for g in &gens {
        let n = count(g.ops.len(), g.leaves.len(), g.depth);
        let acc = (0..n)
            .into_par_iter()
            .fold(Acc::default, |mut acc, i| {
                check_tree(&decode(&g.ops, &g.leaves, g.depth, i), &mut acc);
                acc
            })
            .reduce(Acc::default, merge);
        bounds.push(json!({"family": g.name, "trees": n, "depth": g.depth}));
        total = merge(total, acc);
    }

    if total.failures.total() == 0 && total.shapes.len() < 1000 {
        machinery_failure("vacuous run");
    }
    report.set("states", total.trees);
    report.set("transitions", total.parses);
    report.set("traces_validated_against_impl", total.parses);
    report.set("exhaustive", true);
    report.set("bounds_completed", bounds);
    report.set("distinct_outcomes", total.shapes.len());
    report.set("samples", total.samples.clone());
    report.set(
        "rule",
        "states = expression trees; transitions = real parses (each tree printed with minimal and with full parentheses); \
         the tree read back through the ast accessors must equal the printed tree, with zero syntax errors",
    );
    report.assumptions = vec![
        "the statement orders binary operators against each other and against prefix/postfix operators; it does not order prefix against postfix operators, so those combinations are always printed with explicit parentheses".into(),
        "depth 5 of the quantifier is not reached (depth 4 for operator pairs, depth 3 for level representatives)".into(),
    ];
    report.failures = total.failures;
    report.finish()
}
