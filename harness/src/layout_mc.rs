//! C17 – type layouts obey the documented representation rules.
//!
//! Every type of the depth-<=2 universe plus every struct of <= k members and every enum of <= k
//! variants over the sized primitives, for pointer widths 64 and 32 (one child process each,
//! because the layout cache is process-global), through the real layout calculator (hook H1).
//! Oracles: (a) the invariants of the statement, (b) an independent reference calculator,
//! (c) `offsetof`/`sizeof` of the host C compiler for structs of C scalars (64-bit only).

use std::collections::BTreeSet;

use hir::common::{MemberTy, Name, Ty};
use internment::Intern;
use serde_json::{json, Value};

use crate::common::*;
use crate::tyuni::*;

fn round_up(n: u32, align: u32) -> u32 {
    n.div_ceil(align) * align
}

#[derive(Debug, Clone, PartialEq)]
struct RefLayout {
    size: u32,
    align: u32,
    offsets: Option<Vec<u32>>,
    tag: Option<u32>,
}

/// the reference layout calculator: written from the statement and the README, not from layout.rs
fn reference(t: &Ty, ptr: u32) -> RefLayout {
    let p = ptr / 8;
    let scalar = |size: u32| RefLayout {
        size,
        align: size.clamp(1, 8),
        offsets: None,
        tag: None,
    };
    let tagged = |payload_size: u32, payload_align: u32| RefLayout {
        size: payload_size + 1,
        align: payload_align,
        offsets: None,
        tag: Some(payload_size),
    };
    match t {
        Ty::IInt(w) | Ty::UInt(w) => scalar(match *w {
            ISIZE => p,
            0 => 4,
            w => w as u32 / 8,
        }),
        Ty::Float(w) => scalar(if *w == 0 { 4 } else { *w as u32 / 8 }),
        Ty::Bool | Ty::Char => scalar(1),
        Ty::String | Ty::Pointer { .. } | Ty::RawPtr { .. } | Ty::FunctionPointer { .. } => scalar(p),
        Ty::Slice { .. } | Ty::RawSlice => RefLayout {
            size: 2 * p,
            align: p,
            offsets: None,
            tag: None,
        },
        Ty::ConcreteArray { size, sub_ty } | Ty::AnonArray { size, sub_ty } => {
            let e = reference(sub_ty, ptr);
            RefLayout {
                size: round_up(e.size, e.align) * *size as u32,
                align: e.align,
                offsets: None,
                tag: None,
            }
        }
        Ty::Distinct { sub_ty, .. } | Ty::EnumVariant { sub_ty, .. } => {
            let mut l = reference(sub_ty, ptr);
            // layouts of the underlying aggregate are reachable through the wrapper
            if !matches!(sub_ty.absolute_ty(), Ty::ConcreteStruct { .. } | Ty::AnonStruct { .. }) {
                l.offsets = None;
            }
            l
        }
        Ty::ConcreteStruct { members, .. } | Ty::AnonStruct { members } => {
            let mut offset = 0;
            let mut align = 1;
            let mut offsets = Vec::new();
            for m in members {
                let l = reference(&m.ty, ptr);
                offset = round_up(offset, l.align);
                offsets.push(offset);
                offset += l.size;
                align = align.max(l.align);
            }
            RefLayout {
                size: offset,
                align,
                offsets: Some(offsets),
                tag: None,
            }
        }
        Ty::Enum { variants, .. } => {
            let ls: Vec<_> = variants.iter().map(|v| reference(v, ptr)).collect();
            tagged(
                ls.iter().map(|l| l.size).max().unwrap_or(0),
                ls.iter().map(|l| l.align).max().unwrap_or(1),
            )
        }
        Ty::Optional { sub_ty } => {
            let l = reference(sub_ty, ptr);
            if matches!(sub_ty.absolute_ty(), Ty::Pointer { .. } | Ty::RawPtr { .. }) {
                RefLayout {
                    size: p,
                    align: p,
                    offsets: None,
                    tag: None,
                }
            } else {
                tagged(l.size, l.align)
            }
        }
        Ty::ErrorUnion { error_ty, payload_ty } => {
            let (e, pl) = (reference(error_ty, ptr), reference(payload_ty, ptr));
            tagged(e.size.max(pl.size), e.align.max(pl.align))
        }
        Ty::Type => scalar(4),
        Ty::Any => RefLayout {
            size: round_up(4, p) + p,
            align: p.max(4),
            offsets: None,
            tag: None,
        },
        Ty::Void | Ty::Nil => RefLayout {
            size: 0,
            align: 1,
            offsets: None,
            tag: None,
        },
        other => panic!("no reference layout for {other:?}"),
    }
}

fn is_sum(t: &Ty) -> bool {
    match t.absolute_ty() {
        Ty::Enum { .. } | Ty::ErrorUnion { .. } => true,
        Ty::Optional { sub_ty } => !matches!(sub_ty.absolute_ty(), Ty::Pointer { .. } | Ty::RawPtr { .. }),
        _ => false,
    }
}

fn check_one(u: &Universe, t: Intern<Ty>, ptr: u32, failures: &mut Failures, outcomes: &mut BTreeSet<(u32, u32)>) {
    let input = format!("{} @ {ptr}-bit", u.show(&t));
    let mut fail = |sig: &str, detail: String| {
        failures.push(Failure {
            signature: format!("{sig} T={}", crate::tyrel_mc::shape(&t)),
            input: input.clone(),
            api: format!("layout({ptr})"),
            detail,
        });
    };
    let info = match catch(|| {
        codegen::verif::calc_layouts(std::iter::once(t), ptr);
        codegen::verif::layout_info(t)
    }) {
        Ok(i) => i,
        Err(p) => {
            fail(&panic_class(&p), format!("{} at {}", p.message, p.location));
            return;
        }
    };
    outcomes.insert((info.size, info.align));
    // (a) invariants of the statement
    if !info.align.is_power_of_two() || info.align > 8 {
        fail("align-not-power-of-two<=8", format!("{info:?}"));
        return;
    }
    if info.stride != round_up(info.size, info.align) {
        fail("stride-not-size-rounded-up", format!("{info:?}"));
        return;
    }
    let layout_of = |x: Intern<Ty>| {
        codegen::verif::calc_layouts(std::iter::once(x), ptr);
        codegen::verif::layout_info(x)
    };
    match t.as_ref() {
        Ty::ConcreteStruct { members, .. } | Ty::AnonStruct { members } => {
            let Some(offsets) = &info.struct_offsets else {
                fail("struct-without-offsets", format!("{info:?}"));
                return;
            };
            if offsets.len() != members.len() {
                fail("struct-offset-count", format!("{info:?}"));
                return;
            }
            let mut end = 0;
            for (m, off) in members.iter().zip(offsets) {
                let ml = layout_of(m.ty);
                if off % ml.align != 0 || *off < end || off + ml.size > info.size {
                    fail("struct-field-misplaced", format!("field at {off} ({ml:?}) in {info:?}"));
                    return;
                }
                if ml.align > info.align {
                    fail("struct-align-smaller-than-field", format!("{info:?}"));
                    return;
                }
                end = off + ml.size;
            }
        }
        Ty::ConcreteArray { size, sub_ty } | Ty::AnonArray { size, sub_ty } => {
            let el = layout_of(*sub_ty);
            if info.size != el.stride * *size as u32 || info.align != el.align {
                fail("array-size-not-len-times-stride", format!("{info:?}, element {el:?}"));
                return;
            }
        }
        Ty::Distinct { sub_ty, .. } | Ty::EnumVariant { sub_ty, .. } => {
            let sl = layout_of(*sub_ty);
            if (info.size, info.align) != (sl.size, sl.align) {
                fail("wrapper-differs-from-underlying", format!("{info:?} vs {sl:?}"));
                return;
            }
        }
        Ty::Optional { sub_ty } if !is_sum(&t) => {
            let _ = sub_ty;
            if info.size != ptr / 8 {
                fail("optional-pointer-not-pointer-sized", format!("{info:?}"));
                return;
            }
        }
        _ => {}
    }
    if is_sum(&t) && matches!(t.as_ref(), Ty::Enum { .. } | Ty::Optional { .. } | Ty::ErrorUnion { .. }) {
        let payloads: Vec<Intern<Ty>> = match t.as_ref() {
            Ty::Enum { variants, .. } => variants.clone(),
            Ty::Optional { sub_ty } => vec![*sub_ty],
            Ty::ErrorUnion { error_ty, payload_ty } => vec![*error_ty, *payload_ty],
            _ => unreachable!(),
        };
        let max_payload = payloads.iter().map(|p| layout_of(*p).size).max().unwrap_or(0);
        if info.discriminant_offset != Some(max_payload) || info.size != max_payload + 1 {
            fail(
                "tag-not-after-largest-payload",
                format!("largest payload {max_payload} bytes, {info:?}"),
            );
            return;
        }
    }
    // (b) the reference calculator
    let r = match catch(|| reference(&t, ptr)) {
        Ok(r) => r,
        Err(p) => machinery_failure(&p.message),
    };
    let offsets_match = match (&r.offsets, &info.struct_offsets) {
        (Some(a), Some(b)) => a == b,
        (None, _) => true,
        (Some(_), None) => false,
    };
    if (r.size, r.align) != (info.size, info.align) || !offsets_match || (r.tag.is_some() && r.tag != info.discriminant_offset) {
        fail("differs-from-reference-layout", format!("reference {r:?}, real {info:?}"));
    }
}

fn c_type(t: &Ty) -> Option<&'static str> {
    Some(match t {
        Ty::IInt(8) => "int8_t",
        Ty::IInt(16) => "int16_t",
        Ty::IInt(32) => "int32_t",
        Ty::IInt(64) => "int64_t",
        Ty::UInt(8) => "uint8_t",
        Ty::UInt(16) => "uint16_t",
        Ty::UInt(32) => "uint32_t",
        Ty::UInt(64) => "uint64_t",
        Ty::IInt(ISIZE) => "intptr_t",
        Ty::UInt(ISIZE) => "uintptr_t",
        Ty::Float(32) => "float",
        Ty::Float(64) => "double",
        Ty::Bool => "bool",
        Ty::Char => "char",
        Ty::String | Ty::RawPtr { .. } => "void*",
        _ => return None,
    })
}

/// (c) compare struct layouts with gcc's offsetof / sizeof / _Alignof
fn c_compare(u: &Universe, structs: &[Intern<Ty>], failures: &mut Failures) -> u64 {
    let dir = format!("{VERIF_DIR}/work/layout-c");
    let _ = std::fs::create_dir_all(&dir);
    let mut src = String::from("#include <stdint.h>\n#include <stdbool.h>\n#include <stddef.h>\n#include <stdio.h>\n");
    let mut main = String::from("int main(void) {\n");
    let mut used = Vec::new();
    for (i, s) in structs.iter().enumerate() {
        let Ty::ConcreteStruct { members, .. } = s.as_ref() else { continue };
        let Some(ctys) = members.iter().map(|m| c_type(&m.ty)).collect::<Option<Vec<_>>>() else {
            continue;
        };
        src.push_str(&format!("struct S{i} {{"));
        for (j, c) in ctys.iter().enumerate() {
            src.push_str(&format!(" {c} m{j};"));
        }
        src.push_str(" };\n");
        main.push_str(&format!("  printf(\"{i} %zu %zu", ));
        for _ in &ctys {
            main.push_str(" %zu");
        }
        main.push_str(&format!("\\n\", sizeof(struct S{i}), _Alignof(struct S{i})"));
        for j in 0..ctys.len() {
            main.push_str(&format!(", offsetof(struct S{i}, m{j})"));
        }
        main.push_str(");\n");
        used.push(i);
    }
    main.push_str("  return 0;\n}\n");
    src.push_str(&main);
    let c_path = format!("{dir}/layouts.c");
    std::fs::write(&c_path, src).unwrap();
    let exe = format!("{dir}/layouts");
    let ok = std::process::Command::new("gcc")
        .args(["-O0", "-o", &exe, &c_path])
        .status()
        .map(|s| s.success())
        .unwrap_or(false);
    if !ok {
        machinery_failure("gcc could not compile the layout comparison program");
    }
    let out = std::process::Command::new(&exe).output().unwrap();
    let text = String::from_utf8_lossy(&out.stdout);
    let mut compared = 0;
    for line in text.lines() {
        let nums: Vec<u32> = line.split(' ').filter_map(|x| x.parse().ok()).collect();
        let s = structs[nums[0] as usize];
        let info = codegen::verif::layout_info(s);
        compared += 1;
        // C rounds sizeof up to the alignment: compare with the stride
        let c_size = nums[1];
        let c_align = nums[2];
        let c_offsets = &nums[3..];
        if info.struct_offsets.as_deref() != Some(c_offsets) || info.align != c_align || info.stride != c_size {
            failures.push(Failure {
                signature: format!("differs-from-C-layout T={}", crate::tyrel_mc::shape(&s)),
                input: format!("{} @ 64-bit", u.show(&s)),
                api: "layout(64) vs gcc".into(),
                detail: format!("gcc: sizeof {c_size} align {c_align} offsets {c_offsets:?}; capy: {info:?}"),
            });
        }
    }
    compared
}

pub fn child(rest: &[String]) -> ! {
    let ptr: u32 = rest[0].parse().unwrap();
    let quick = rest[1] == "quick";
    // loads the known findings so that cases are classified where they are produced
    let _report = Report::new("C17", &parse_args(&rest[1..]));
    let mut u = Universe::new(true);
    let mut failures = Failures::default();
    let mut outcomes = BTreeSet::new();
    let mut count = 0u64;

    let universe: Vec<Intern<Ty>> = u.depth2.clone();
    for t in &universe {
        check_one(&u, *t, ptr, &mut failures, &mut outcomes);
        count += 1;
    }

    // structs and enums over the sized primitives
    let prims: Vec<Intern<Ty>> = [
        Ty::IInt(8), Ty::IInt(16), Ty::IInt(32), Ty::IInt(64), Ty::IInt(128), Ty::IInt(ISIZE),
        Ty::UInt(8), Ty::UInt(16), Ty::UInt(32), Ty::UInt(64), Ty::UInt(128), Ty::UInt(ISIZE),
        Ty::Float(32), Ty::Float(64), Ty::Bool, Ty::Char, Ty::String, Ty::RawPtr { mutable: false },
        Ty::Type, Ty::Any, Ty::RawSlice, Ty::Void,
    ]
    .into_iter()
    .map(Intern::new)
    .collect();
    let names: Vec<Name> = (0..4).map(|i| Name(u.interner.intern(&format!("m{i}")))).collect();
    let k = if quick { 3 } else { 4 };
    let mut structs_for_c = Vec::new();
    let mut idx = vec![0usize; 0];
    let mut uid = 1000u32;
    for len in 1..=k {
        idx.clear();
        idx.resize(len, 0);
        'outer: loop {
            let members: Vec<MemberTy> = idx
                .iter()
                .enumerate()
                .map(|(i, &p)| MemberTy { name: names[i], ty: prims[p] })
                .collect();
            uid += 1;
            let s: Intern<Ty> = Ty::ConcreteStruct { uid, members: members.clone() }.into();
            check_one(&u, s, ptr, &mut failures, &mut outcomes);
            count += 1;
            if ptr == 64 && len <= 3 {
                structs_for_c.push(s);
            }
            // the enum with the same payloads
            let variants: Vec<Intern<Ty>> = members
                .iter()
                .enumerate()
                .map(|(i, m)| {
                    Intern::new(Ty::EnumVariant {
                        enum_uid: uid,
                        variant_name: m.name,
                        uid: uid * 8 + i as u32,
                        sub_ty: m.ty,
                        discriminant: i as u64,
                    })
                })
                .collect();
            let e: Intern<Ty> = Ty::Enum { uid, variants }.into();
            check_one(&u, e, ptr, &mut failures, &mut outcomes);
            count += 1;
            let mut pos = len;
            loop {
                if pos == 0 {
                    break 'outer;
                }
                pos -= 1;
                idx[pos] += 1;
                if idx[pos] < prims.len() {
                    break;
                }
                idx[pos] = 0;
            }
        }
    }
    // cache history: the first types, queried again after everything else, give the same answer
    let mut history_checked = 0;
    for t in universe.iter().take(2000) {
        let before = reference(t, ptr);
        let now = codegen::verif::layout_info(*t);
        history_checked += 1;
        if (before.size, before.align) != (now.size, now.align) {
            failures.push(Failure {
                signature: "layout-changed-with-cache-history".into(),
                input: format!("{} @ {ptr}-bit", u.show(t)),
                api: format!("layout({ptr})"),
                detail: format!("{now:?}"),
            });
        }
    }
    let c_compared = if ptr == 64 { c_compare(&u, &structs_for_c, &mut failures) } else { 0 };

    let fails: Vec<Value> = failures
        .all()
        .map(|f| json!([f.signature, f.input, f.api, f.detail]))
        .collect();
    let counts: Vec<Value> = failures.by_sig.iter().map(|(s, sf)| json!([s, sf.count])).collect();
    let excused: Vec<Value> = failures.excused.iter().map(|(s, (n, _))| json!([s, n])).collect();
    println!(
        "{}{}",
        crate::front::MARK,
        json!({"ptr": ptr, "types": count, "outcomes": outcomes.len(), "c_compared": c_compared,
               "history_checked": history_checked, "failures": fails, "counts": counts, "excused": excused,
               "sample": format!("{} -> {:?}", u.show(&universe[universe.len() / 3]), codegen::verif::layout_info(universe[universe.len() / 3]))})
    );
    std::process::exit(0)
}

pub fn run(args: &Args) -> ! {
    let mut report = Report::new("C17", args);
    let exe = std::env::current_exe().unwrap();
    let mut types = 0u64;
    let mut outcomes = 0u64;
    let mut c_compared = 0u64;
    let mut history = 0u64;
    let mut samples = Vec::new();
    let mut failures = Failures::default();
    let handles: Vec<_> = [64u32, 32]
        .into_iter()
        .map(|ptr| {
            let exe = exe.clone();
            let tier = args.tier.name().to_string();
            std::thread::spawn(move || {
                std::process::Command::new(exe)
                    .args(["layout-child", &ptr.to_string(), &tier])
                    .output()
            })
        })
        .collect();
    for h in handles {
        let out = h.join().unwrap().unwrap_or_else(|e| machinery_failure(&format!("{e}")));
        let text = String::from_utf8_lossy(&out.stdout);
        let Some(line) = text.lines().find_map(|l| l.strip_prefix(crate::front::MARK)) else {
            machinery_failure(&format!(
                "layout child failed: {} {}",
                out.status,
                truncate(&String::from_utf8_lossy(&out.stderr), 500)
            ));
        };
        let v: Value = serde_json::from_str(line).unwrap();
        types += v["types"].as_u64().unwrap();
        outcomes += v["outcomes"].as_u64().unwrap();
        c_compared += v["c_compared"].as_u64().unwrap();
        history += v["history_checked"].as_u64().unwrap();
        samples.push(v["sample"].clone());
        for f in v["failures"].as_array().unwrap() {
            let f = Failure {
                signature: f[0].as_str().unwrap().into(),
                input: f[1].as_str().unwrap().into(),
                api: f[2].as_str().unwrap().into(),
                detail: f[3].as_str().unwrap().into(),
            };
            failures.by_sig.entry(f.signature.clone()).or_default().examples.push(f);
        }
        for c in v["counts"].as_array().unwrap() {
            failures.by_sig.entry(c[0].as_str().unwrap().into()).or_default().count += c[1].as_u64().unwrap();
        }
        for c in v["excused"].as_array().unwrap() {
            failures.excused.entry(c[0].as_str().unwrap().into()).or_insert((0, None)).0 += c[1].as_u64().unwrap();
        }
    }
    if failures.total() == 0 && outcomes < 20 {
        machinery_failure("vacuous run");
    }
    report.set("states", types);
    report.set("transitions", types + c_compared + history);
    report.set("traces_validated_against_impl", types);
    report.set("exhaustive", true);
    report.set("distinct_outcomes", outcomes);
    report.set("structs_compared_with_gcc", c_compared);
    report.set("cache_history_requeries", history);
    report.set(
        "bounds_completed",
        json!({"universe": "constructor depth <= 2 (tyuni)", "struct_members_and_enum_variants": if args.tier == Tier::Quick { 3 } else { 4 },
               "member_types": 22, "pointer_widths": [64, 32]}),
    );
    report.set("samples", samples);
    report.set(
        "rule",
        "states = (type, pointer width) pairs laid out by the real calc_layouts; an outcome is a distinct (size, align)",
    );
    report.assumptions = vec![
        "depth 3 of the quantifier is reached only through structs/enums of depth-0 members and the depth-2 universe; no random types".into(),
        "C comparison uses the stride (C's sizeof includes tail padding) and excludes 128-bit members".into(),
    ];
    report.failures = failures;
    report.finish()
}
