//! C12 – implicit conversion is consistent, order-independent and weaker than casting.
//!
//! All ordered pairs of the depth-<=2 type universe are pushed through the real relation methods
//! of `hir::common::Ty`; the laws of the property statement are the oracle:
//!   L1  A.can_fit_into(A)
//!   L2  A.can_fit_into(B)            =>  A.can_cast_to(B)
//!   L3  A.is_weak_replaceable_by(B)  =>  A.can_fit_into(B)   (the compiler assert!s this)
//!   L4  A.max(B) = Some(M)           =>  M accepts A and M accepts B  (accept = what expect_match accepts)
//!   L5  A.max(B) = B.max(A)
//! and none of the calls may panic.

use std::collections::BTreeMap;

use hir::common::Ty;
use internment::Intern;
use rayon::prelude::*;
use serde_json::json;

use crate::common::*;
use crate::tyuni::*;

/// the shape of a type: constructor skeleton, integer widths abstracted
pub fn shape(t: &Ty) -> String {
    match t {
        Ty::IInt(0) => "{int}".into(),
        Ty::UInt(0) => "{uint}".into(),
        Ty::Float(0) => "{float}".into(),
        Ty::IInt(ISIZE) => "isize".into(),
        Ty::UInt(ISIZE) => "usize".into(),
        Ty::IInt(_) => "iN".into(),
        Ty::UInt(_) => "uN".into(),
        Ty::Float(_) => "fN".into(),
        Ty::Bool => "bool".into(),
        Ty::String => "str".into(),
        Ty::Char => "char".into(),
        Ty::Type => "type".into(),
        Ty::Any => "any".into(),
        Ty::RawPtr { mutable } => if *mutable { "mut rawptr" } else { "rawptr" }.into(),
        Ty::RawSlice => "rawslice".into(),
        Ty::Void => "void".into(),
        Ty::Nil => "nil".into(),
        Ty::ConcreteArray { sub_ty, size } => {
            if *size == 0 {
                format!("[0]{}", shape(sub_ty))
            } else {
                format!("[n]{}", shape(sub_ty))
            }
        }
        Ty::AnonArray { sub_ty, .. } => format!(".[n]{}", shape(sub_ty)),
        Ty::Slice { sub_ty } => format!("[]{}", shape(sub_ty)),
        Ty::Pointer { mutable, sub_ty } => {
            format!("{}{}", if *mutable { "^mut " } else { "^" }, shape(sub_ty))
        }
        Ty::Distinct { sub_ty, .. } => format!("distinct({})", shape(sub_ty)),
        Ty::ConcreteStruct { members, .. } => format!(
            "struct{{{}}}",
            members.iter().map(|m| shape(&m.ty)).collect::<Vec<_>>().join(",")
        ),
        Ty::AnonStruct { members } => format!(
            ".{{{}}}",
            members.iter().map(|m| shape(&m.ty)).collect::<Vec<_>>().join(",")
        ),
        Ty::Enum { .. } => "enum".into(),
        Ty::EnumVariant { sub_ty, .. } => format!("variant({})", shape(sub_ty)),
        Ty::Optional { sub_ty } => format!("?{}", shape(sub_ty)),
        Ty::ErrorUnion { error_ty, payload_ty } => {
            format!("{}!{}", shape(error_ty), shape(payload_ty))
        }
        Ty::FunctionPointer { param_tys, return_ty } => format!(
            "fn({})->{}",
            param_tys.iter().map(|p| shape(&p.ty)).collect::<Vec<_>>().join(","),
            shape(return_ty)
        ),
        other => format!("{other:?}"),
    }
}

#[derive(Default)]
struct Acc {
    pairs: u64,
    calls: u64,
    fits: u64,
    casts: u64,
    weak: u64,
    max_some: u64,
    failures: Failures,
}

fn accepts(found: &Ty, expected: &Ty) -> bool {
    // what expect_match accepts: can_fit_into, or a zero-sized value where a `type` is expected
    (*expected == Ty::Type && found.is_zero_sized()) || found.can_fit_into(expected)
}

/// defect model of a known finding: `max` applies "a zero-sized value and `type` (or two
/// zero-sized variants of different enums) have the common type `type`" to the components of
/// two optionals / two error unions, where `can_fit_into` has no such rule.
fn zero_sized_to_type_under_sum(a: &Ty, b: &Ty, m: &Ty) -> bool {
    fn inner(a: &Ty, b: &Ty, m: &Ty, depth: u32) -> bool {
        if depth > 0
            && *m == Ty::Type
            && (*a != Ty::Type || *b != Ty::Type)
            && (a.is_zero_sized() || *a == Ty::Type)
            && (b.is_zero_sized() || *b == Ty::Type)
        {
            return true;
        }
        match (a, b, m) {
            (Ty::Optional { sub_ty: x }, Ty::Optional { sub_ty: y }, Ty::Optional { sub_ty: z }) => {
                inner(x, y, z, depth + 1)
            }
            (
                Ty::ErrorUnion { error_ty: xe, payload_ty: xp },
                Ty::ErrorUnion { error_ty: ye, payload_ty: yp },
                Ty::ErrorUnion { error_ty: ze, payload_ty: zp },
            ) => inner(xe, ye, ze, depth + 1) || inner(xp, yp, zp, depth + 1),
            _ => false,
        }
    }
    inner(a, b, m, 0)
}

fn check_pair(u: &Universe, a: &Intern<Ty>, b: &Intern<Ty>, acc: &mut Acc) {
    acc.pairs += 1;
    let res = catch(|| {
        let fit = a.can_fit_into(b);
        let cast = a.can_cast_to(b);
        let weak = a.is_weak_replaceable_by(b);
        let max_ab = a.max(b);
        let max_ba = b.max(a);
        let mut problems: Vec<(&'static str, String)> = Vec::new();
        if fit && !cast {
            problems.push(("L2:fits-but-cannot-be-cast", String::new()));
        }
        if weak && !fit {
            problems.push(("L3:weak-replaceable-but-does-not-fit", String::new()));
        }
        if max_ab != max_ba {
            problems.push((
                "L5:max-depends-on-order",
                format!("max(A,B) = {:?}, max(B,A) = {:?}", max_ab.as_ref().map(shape), max_ba.as_ref().map(shape)),
            ));
        }
        if let Some(m) = &max_ab {
            let (oa, ob) = (accepts(a, m), accepts(b, m));
            if !oa || !ob {
                problems.push((
                    if zero_sized_to_type_under_sum(a, b, m) {
                        "L4:max-does-not-accept-operand(zero-sized-to-type-under-sum)"
                    } else {
                        "L4:max-does-not-accept-operand"
                    },
                    format!(
                        "max(A,B) = {} accepts A: {oa}, accepts B: {ob}",
                        format!("{}", m.debug(&u.interner, true))
                    ),
                ));
            }
        }
        (fit, cast, weak, max_ab.is_some(), problems)
    });
    acc.calls += 5;
    match res {
        Ok((fit, cast, weak, max_some, problems)) => {
            acc.fits += fit as u64;
            acc.casts += cast as u64;
            acc.weak += weak as u64;
            acc.max_some += max_some as u64;
            for (law, detail) in problems {
                acc.failures.push(Failure {
                    signature: format!("{law} A={} B={}", shape(a), shape(b)),
                    input: format!("A = {} ; B = {}", u.show(a), u.show(b)),
                    api: "Ty relations".into(),
                    detail,
                });
            }
        }
        Err(p) => {
            acc.failures.push(Failure {
                signature: format!("{} A={} B={}", panic_class(&p), shape(a), shape(b)),
                input: format!("A = {} ; B = {}", u.show(a), u.show(b)),
                api: "Ty relations".into(),
                detail: format!("{} at {}", p.message, p.location),
            });
        }
    }
}

pub fn run(args: &Args) -> ! {
    let mut report = Report::new("C12", args);
    let quick = args.tier == Tier::Quick;
    let u = Universe::new(true);
    // quick: all pairs of depth <= 1 and (depth-1 x depth-2) pairs; thorough: all pairs of depth <= 2
    let left: &Vec<Intern<Ty>> = if quick { &u.depth1 } else { &u.depth2 };
    let right: &Vec<Intern<Ty>> = &u.depth2;

    // L1 on everything
    let mut l1_failures = Failures::default();
    for t in &u.depth2 {
        if !catch(|| t.can_fit_into(t)).unwrap_or(false) {
            l1_failures.push(Failure {
                signature: format!("L1:type-does-not-fit-itself A={}", shape(t)),
                input: u.show(t),
                api: "Ty relations".into(),
                detail: String::new(),
            });
        }
    }

    let enums = u.enums.clone();
    let left_set: std::collections::HashSet<Intern<Ty>> = left.iter().copied().collect();
    let total = left
        .par_iter()
        .fold(Acc::default, |mut acc, a| {
            // Ty::max on variants consults a thread-local map
            register_enums(&enums);
            for b in right.iter() {
                check_pair(&u, a, b, &mut acc);
            }
            if quick {
                for b in right.iter() {
                    if !left_set.contains(b) {
                        check_pair(&u, b, a, &mut acc);
                    }
                }
            }
            acc
        })
        .reduce(Acc::default, |mut x, y| {
            x.pairs += y.pairs;
            x.calls += y.calls;
            x.fits += y.fits;
            x.casts += y.casts;
            x.weak += y.weak;
            x.max_some += y.max_some;
            x.failures.merge(y.failures);
            x
        });

    if total.failures.total() == 0 && (total.fits < 1000 || total.max_some < 1000 || total.weak < 100) {
        machinery_failure("vacuous run: hardly any related pairs");
    }

    let mut by_law: BTreeMap<String, u64> = BTreeMap::new();
    for (sig, sf) in &total.failures.by_sig {
        *by_law.entry(sig.split(' ').next().unwrap_or("").to_string()).or_default() += sf.count;
    }

    report.set("states", total.pairs);
    report.set("transitions", total.calls);
    report.set("traces_validated_against_impl", total.pairs);
    report.set("exhaustive", true);
    report.set(
        "bounds_completed",
        json!({"base_types": u.base.len(), "depth1_types": u.depth1.len(), "depth2_types": u.depth2.len(),
               "pairs": if quick { "depth<=1 x depth<=2, both orders" } else { "depth<=2 x depth<=2" }}),
    );
    report.set("pairs_that_fit", total.fits);
    report.set("pairs_that_cast", total.casts);
    report.set("pairs_weak_replaceable", total.weak);
    report.set("pairs_with_a_common_type", total.max_some);
    report.set("distinct_outcomes", total.fits.min(1) + total.casts.min(1) + total.max_some);
    report.set("unexplained_by_law", json!(by_law));
    report.set(
        "samples",
        json!([
            format!("A = {} ; B = {}", u.show(&u.depth1[3]), u.show(&u.depth2[u.depth2.len() / 2])),
            format!("A = {} ; B = {}", u.show(&u.depth2[17]), u.show(&u.depth1[u.depth1.len() - 5])),
        ]),
    );
    report.set(
        "rule",
        "states = ordered type pairs; transitions = calls of the real can_fit_into / can_cast_to / is_weak_replaceable_by / max",
    );
    report.assumptions = vec![
        "the laws are checked on the type-relation methods themselves (the property quantifies over type pairs); Ty::Unknown, NotYetResolved, AlwaysJumps, File and function items are outside the universe".into(),
        "`accepts` is what expect_match accepts: can_fit_into, or a zero-sized value where `type` is expected".into(),
    ];
    let mut failures = total.failures;
    failures.merge(l1_failures);
    report.failures = failures;
    report.finish()
}
