//! C25 – reported line and column are exactly right.
//!
//! (1) every string of length <= 8 over {a, \n, \r, \t, é} x every byte offset, against the
//!     definition (newlines before the offset; offset minus line start);
//! (2) every syntax diagnostic produced by an exhaustive parse sweep (all token strings of length
//!     <= k, corpus snippets and their single-token edits), and every front-end diagnostic of the
//!     corpus snippets, rendered through the real `Diagnostic::display`: the header must name the
//!     1-based position of the start of the diagnostic's range.

use std::collections::BTreeSet;

use line_index::LineIndex;
use serde_json::json;
use text_size::TextSize;

use crate::common::*;

#[derive(Default)]
struct LcAcc {
    strings: u64,
    queries: u64,
    outcomes: BTreeSet<(u32, u32)>,
    failures: Failures,
}

impl Acc for LcAcc {
    fn merge(&mut self, o: Self) {
        self.strings += o.strings;
        self.queries += o.queries;
        self.outcomes.extend(o.outcomes);
        self.failures.merge(o.failures);
    }
}

pub fn reference_line_col(text: &str, offset: usize) -> (u32, u32) {
    let before = &text.as_bytes()[..offset];
    let line = before.iter().filter(|&&b| b == b'\n').count() as u32;
    let line_start = before
        .iter()
        .rposition(|&b| b == b'\n')
        .map(|i| i + 1)
        .unwrap_or(0);
    (line, (offset - line_start) as u32)
}

fn check_string(acc: &mut LcAcc, text: &str) {
    acc.strings += 1;
    let index = match catch(|| LineIndex::new(text)) {
        Ok(i) => i,
        Err(p) => {
            acc.failures.push(Failure {
                signature: panic_class(&p),
                input: text.to_string(),
                api: "LineIndex::new".into(),
                detail: p.message,
            });
            return;
        }
    };
    for offset in 0..=text.len() {
        acc.queries += 1;
        let expected = reference_line_col(text, offset);
        match catch(|| index.line_col(TextSize::from(offset as u32))) {
            Ok((l, c)) => {
                if (l.0, c.0) != expected {
                    acc.failures.push(Failure {
                        signature: "line-col-wrong".into(),
                        input: format!("{text:?}@{offset}"),
                        api: "LineIndex::line_col".into(),
                        detail: format!("got {:?}, expected {:?}", (l.0, c.0), expected),
                    });
                    return;
                }
                if acc.outcomes.len() < 200 {
                    acc.outcomes.insert(expected);
                }
            }
            Err(p) => {
                acc.failures.push(Failure {
                    signature: panic_class(&p),
                    input: format!("{text:?}@{offset}"),
                    api: "LineIndex::line_col".into(),
                    detail: p.message,
                });
                return;
            }
        }
    }
}

#[derive(Default)]
pub struct RenderAcc {
    pub inputs: u64,
    pub rendered: u64,
    pub positions: BTreeSet<(u32, u32)>,
    pub failures: Failures,
    pub samples: Vec<String>,
}

impl Acc for RenderAcc {
    fn merge(&mut self, o: Self) {
        self.inputs += o.inputs;
        self.rendered += o.rendered;
        if self.positions.len() < 5000 {
            self.positions.extend(o.positions);
        }
        self.failures.merge(o.failures);
        if self.samples.len() < 4 {
            self.samples.extend(o.samples.into_iter().take(1));
        }
    }
}

/// renders one diagnostic and checks the `--> at file:line:col` header
pub fn check_render(
    acc: &mut RenderAcc,
    d: &diagnostics::Diagnostic,
    what: &str,
    text: &str,
    interner: &interner::Interner,
    index: &LineIndex,
) {
    let mod_dir = std::path::Path::new("/nonexistent-mod-dir");
    let file = "/verif-file.capy";
    acc.rendered += 1;
    let range = d.range();
    let start = usize::from(range.start());
    let lines = match catch(|| d.display(file, text, mod_dir, interner, index, false)) {
        Ok(l) => l,
        Err(p) => {
            acc.failures.push(Failure {
                signature: format!("render-{}", panic_class(&p)),
                input: text.to_string(),
                api: format!("Diagnostic::display({what})"),
                detail: format!("range {range:?}: {} at {}", p.message, p.location),
            });
            return;
        }
    };
    if start > text.len() {
        acc.failures.push(Failure {
            signature: "diagnostic-range-outside-input".into(),
            input: text.to_string(),
            api: format!("Diagnostic::display({what})"),
            detail: format!("range {range:?}, input length {}", text.len()),
        });
        return;
    }
    let (l, c) = reference_line_col(text, start);
    let header = lines.iter().find(|l| l.contains("--> at "));
    let expected_tail = format!(":{}:{}", l + 1, c + 1);
    match header {
        Some(h) if h.trim_end().ends_with(&expected_tail) => {
            if acc.positions.len() < 5000 {
                acc.positions.insert((l, c));
            }
            if acc.samples.is_empty() && l > 0 {
                acc.samples.push(format!("{text:?}: {what} range {range:?} -> {:?}", h.trim()));
            }
        }
        other => {
            acc.failures.push(Failure {
                signature: "header-position-wrong".into(),
                input: text.to_string(),
                api: format!("Diagnostic::display({what})"),
                detail: format!("range {range:?}: expected header ending in {expected_tail:?}, got {other:?}"),
            });
        }
    }
}

fn check_syntax_diags(acc: &mut RenderAcc, text: &str) {
    acc.inputs += 1;
    let Ok(tokens) = catch(|| lexer::lex(text)) else {
        return;
    };
    parser::verif::set_fuel(Some(
        crate::parse_mc::FUEL_BASE + crate::parse_mc::FUEL_PER_TOKEN * tokens.len() as u64,
    ));
    let parse = catch(|| parser::parse_source_file(&tokens, text));
    parser::verif::set_fuel(None);
    let Ok(parse) = parse else {
        return; // C23's finding
    };
    if parse.errors().is_empty() {
        return;
    }
    let interner = interner::Interner::default();
    let index = LineIndex::new(text);
    for e in parse.errors() {
        let d = diagnostics::Diagnostic::from_syntax(*e);
        check_render(acc, &d, "syntax", text, &interner, &index);
    }
}

const ALPHA: [&str; 5] = ["a", "\n", "\r", "\t", "é"];

pub fn run(args: &Args) -> ! {
    let mut report = Report::new("C25", args);
    let quick = args.tier == Tier::Quick;

    let mut lc = LcAcc::default();
    let f = |acc: &mut LcAcc, _: &[usize], text: &str| check_string(acc, text);
    for len in 0..=8 {
        lc.merge(for_all_sequences::<LcAcc>(&ALPHA, len, &f));
    }

    // rendering of syntax diagnostics
    let g = |acc: &mut RenderAcc, _: &[usize], text: &str| check_syntax_diags(acc, text);
    let mut rd = RenderAcc::default();
    let k = if quick { 3 } else { 4 };
    // newline-rich alphabet so that line/col vary
    let mut alpha: Vec<&str> = crate::parse_mc::FULL.to_vec();
    alpha.push("é");
    alpha.push("\r\n");
    for len in 0..=k {
        rd.merge(for_all_sequences::<RenderAcc>(&alpha, len, &g));
    }
    let snippets = crate::corpus::snippets();
    {
        use rayon::prelude::*;
        let reps: &[&str] = if quick {
            &crate::parse_mc::REPLACEMENTS[..4]
        } else {
            crate::parse_mc::REPLACEMENTS
        };
        let acc = snippets
            .par_iter()
            .fold(RenderAcc::default, |mut acc, (_, text)| {
                check_syntax_diags(&mut acc, text);
                if text.len() < 20_000 {
                    crate::parse_mc::edits_of(text, reps, &mut |t| check_syntax_diags(&mut acc, t));
                }
                acc
            })
            .reduce(RenderAcc::default, |mut a, b| {
                a.merge(b);
                a
            });
        rd.merge(acc);
    }

    // every front-end diagnostic (validation, indexing, lowering, type checking) of the corpus
    let front = crate::front::render_sweep(&snippets, quick);
    rd.merge(front);

    if lc.failures.total() + rd.failures.total() == 0 && (lc.outcomes.len() < 20 || rd.positions.len() < 20) {
        machinery_failure("vacuous run");
    }

    report.set("states", lc.strings + rd.inputs);
    report.set("transitions", lc.queries + rd.rendered);
    report.set("traces_validated_against_impl", lc.queries + rd.rendered);
    report.set("exhaustive", true);
    report.set(
        "bounds_completed",
        json!([
            {"family": "line_col", "alphabet": ALPHA, "max_len_completed": 8, "strings": lc.strings, "offset_queries": lc.queries},
            {"family": "rendered-syntax-diagnostics", "token_strings_max_len": k, "alphabet_symbols": alpha.len(),
             "corpus_snippets": snippets.len(), "diagnostics_rendered": rd.rendered},
        ]),
    );
    report.set("distinct_outcomes", lc.outcomes.len() + rd.positions.len());
    report.set("distinct_header_positions", rd.positions.len());
    report.set(
        "rule",
        "states = texts; transitions = (text, offset) queries of LineIndex::line_col plus diagnostics rendered by Diagnostic::display; \
         every one is compared with the definition (count of newlines before the offset, offset minus line start)",
    );
    let mut samples = vec![json!("\"a\\né\\r\\n\"@4 -> line 1, col 2")];
    samples.extend(rd.samples.iter().map(|s| json!(s)));
    report.set("samples", samples);
    report.assumptions = vec![
        "diagnostics of the type checker that need imports or comptime execution are rendered by the CLI-driven checks (C07, C14, C15), not here".into(),
    ];
    let mut failures = lc.failures;
    failures.merge(rd.failures);
    report.failures = failures;
    report.finish()
}
