//! C27 – distinct compiled entities get distinct symbol names.
//!
//! Exhaustive enumeration of entity descriptors (file path of <= 3 components under the working
//! directory and under the module directory x global / lambda / comptime / data / generic
//! entities) through the real `Mangle` implementations (hook H1); the oracle is injectivity:
//! a map from mangled name to descriptor must never see two different descriptors.
//!
//! Known collisions are attributed through *defect models*: a normalisation of descriptors that
//! reproduces one confusion of the mangler. A colliding pair is excused iff the listed models
//! make the two descriptors equal; everything else is a violation.

use std::collections::{BTreeMap, BTreeSet, HashMap};
use std::path::{Path, PathBuf};

use hir::common::{
    ComptimeArgs, ComptimeLoc, ConcreteLoc, FileName, NaiveGlobalLoc, NaiveLambdaLoc, Name,
};
use la_arena::{Idx, IdxRange, RawIdx};
use serde_json::json;

use crate::common::*;

#[derive(Debug, Clone, PartialEq, Eq, Hash, PartialOrd, Ord)]
pub enum Base {
    Global(String),
    Lambda(u32),
}

#[derive(Debug, Clone, PartialEq, Eq, Hash, PartialOrd, Ord)]
pub struct Entity {
    pub base: Base,
    pub generic: Option<u32>,
    /// comptime block index, optionally with the name of one of its data objects
    pub comptime: Option<(u32, Option<String>)>,
}

#[derive(Debug, Clone, PartialEq, Eq, Hash, PartialOrd, Ord)]
pub struct Desc {
    pub in_mod_dir: bool,
    /// path components relative to the root; the last one is the file name (with `.capy`)
    pub path: Vec<String>,
    pub entity: Entity,
}

impl Desc {
    fn show(&self) -> String {
        format!(
            "{}{} :: {:?}",
            if self.in_mod_dir { "<mod-dir>/" } else { "<cwd>/" },
            self.path.join("/"),
            self.entity
        )
    }

    /// the descriptor as the mangler would see it if it had the confusions in `models`
    fn canon(&self, models: &BTreeSet<String>) -> Desc {
        let mut comps: Vec<String> = self.path.clone();
        // the file's own `.capy` is always stripped (that is intended); with the
        // capy-suffix-strip confusion one `.capy` is stripped from *every* component
        let n = comps.len();
        for (i, c) in comps.iter_mut().enumerate() {
            if i + 1 == n || models.contains("capy-suffix-strip") {
                if let Some(s) = c.strip_suffix(".capy") {
                    *c = s.to_string();
                }
            }
        }
        if models.contains("dot-to-dash") {
            for c in comps.iter_mut() {
                *c = c.replace('.', "-");
            }
        }
        if models.contains("src-skip") && comps.len() >= 2 && self.path[1] == "src" {
            if self.in_mod_dir {
                comps.remove(1);
            } else {
                comps.remove(0);
            }
        }
        if models.contains("digit-leading-escape") {
            for (i, c) in comps.iter_mut().enumerate() {
                if c.starts_with(|ch: char| ch.is_ascii_digit()) {
                    let code = if self.in_mod_dir && i == 0 { 'm' } else { 'f' };
                    *c = format!("{code}{c}");
                }
            }
        }
        Desc {
            in_mod_dir: self.in_mod_dir,
            path: comps,
            entity: self.entity.clone(),
        }
    }
}

const MODELS: [&str; 4] = [
    "digit-leading-escape",
    "dot-to-dash",
    "capy-suffix-strip",
    "src-skip",
];

fn idx<T>(i: u32) -> Idx<T> {
    Idx::from_raw(RawIdx::from(i))
}

fn mangle(d: &Desc, cwd: &Path, mod_dir: &Path, interner: &mut interner::Interner) -> String {
    let mut p: PathBuf = if d.in_mod_dir { mod_dir.to_path_buf() } else { cwd.to_path_buf() };
    for c in &d.path {
        p.push(c);
    }
    let file = FileName(interner.intern(&p.to_string_lossy()));
    let args = d
        .entity
        .generic
        .map(|g| ComptimeArgs::new(IdxRange::new(idx(g)..idx(g + 1))));
    let concrete: ConcreteLoc = match &d.entity.base {
        Base::Global(name) => NaiveGlobalLoc {
            file,
            name: Name(interner.intern(name)),
        }
        .make_concrete(args)
        .into(),
        Base::Lambda(i) => NaiveLambdaLoc {
            file,
            expr: idx(*i),
            lambda: idx(*i),
        }
        .make_concrete(args)
        .into(),
    };
    match &d.entity.comptime {
        None => codegen::verif::mangle_concrete(concrete, mod_dir, interner),
        Some((k, data)) => {
            let loc = ComptimeLoc {
                loc: concrete,
                expr: idx(*k),
                comptime: idx(*k),
            };
            match data {
                None => codegen::verif::mangle_comptime(loc, mod_dir, interner),
                Some(name) => codegen::verif::mangle_comptime_data(loc, name, mod_dir, interner),
            }
        }
    }
}

/// reference decoder of the documented name format: a table of contents of kind letters, then
/// per part its length followed by its text (a part that starts with a digit is prefixed with
/// the lower-case kind letter, which counts towards the length), then `E`
fn decode(name: &str) -> Option<Vec<(char, String)>> {
    let toc: Vec<char> = name.chars().take_while(|c| "MFNGLZI".contains(*c)).collect();
    let mut rest = &name[toc.len()..];
    let mut parts = Vec::new();
    for k in toc {
        let digits: String = rest.chars().take_while(|c| c.is_ascii_digit()).collect();
        let n: usize = digits.parse().ok()?;
        rest = &rest[digits.len()..];
        if rest.len() < n || !rest.is_char_boundary(n) {
            return None;
        }
        let mut text = rest[..n].to_string();
        rest = &rest[n..];
        text = unescape(k, &text);
        parts.push((k, text));
    }
    if rest == "E" {
        Some(parts)
    } else {
        None
    }
}

/// `f1` (the escaped form of `1`) back to `1`
fn unescape(kind: char, text: &str) -> String {
    let mut cs = text.chars();
    if cs.next() == Some(kind.to_ascii_lowercase()) && cs.next().is_some_and(|c| c.is_ascii_digit()) {
        text[1..].to_string()
    } else {
        text.to_string()
    }
}

/// the parts the documented format prescribes for a descriptor (after the documented path
/// normalisations: `.capy` stripped, `.` -> `-`, the `src` component skipped)
fn expected_parts(d: &Desc) -> Vec<(char, String)> {
    let documented: BTreeSet<String> = ["capy-suffix-strip", "dot-to-dash", "src-skip"]
        .iter()
        .map(|s| s.to_string())
        .collect();
    let c = d.canon(&documented);
    let mut parts = Vec::new();
    for (i, comp) in c.path.iter().enumerate() {
        parts.push((if d.in_mod_dir && i == 0 { 'M' } else { 'F' }, comp.clone()));
    }
    match &d.entity.base {
        Base::Global(n) => parts.push(('N', n.clone())),
        Base::Lambda(i) => parts.push(('L', i.to_string())),
    }
    if let Some(g) = d.entity.generic {
        parts.push(('G', g.to_string()));
    }
    if let Some((k, data)) = &d.entity.comptime {
        parts.push(('Z', k.to_string()));
        if let Some(name) = data {
            parts.push(('I', name.clone()));
        }
    }
    parts
}

fn internal_names() -> Vec<String> {
    // every string literal passed to mangle_internal in the code generator
    let mut names = BTreeSet::new();
    let re = regex::Regex::new(r#"(?:mangle_internal|declare)\(\s*"([A-Za-z0-9_]+)"\s*\)"#).unwrap();
    fn walk(dir: &Path, f: &mut dyn FnMut(&Path)) {
        if let Ok(rd) = std::fs::read_dir(dir) {
            for e in rd.flatten() {
                let p = e.path();
                if p.is_dir() {
                    walk(&p, f);
                } else if p.extension().is_some_and(|e| e == "rs") {
                    f(&p);
                }
            }
        }
    }
    walk(Path::new("/repo/crates/codegen/src"), &mut |p| {
        if let Ok(t) = std::fs::read_to_string(p) {
            for c in re.captures_iter(&t) {
                names.insert(c[1].to_string());
            }
        }
    });
    names.insert("ptr_bitcast".into());
    for ty in ["i8", "i16", "i32", "i64", "i128", "f32", "f64"] {
        names.insert(format!("{ty}_bitcast"));
    }
    names.into_iter().collect()
}

pub fn run(args: &Args) -> ! {
    let mut report = Report::new("C27", args);
    let quick = args.tier == Tier::Quick;
    let cwd = std::env::current_dir().unwrap();
    let mod_dir = PathBuf::from("/verif-mod-dir");
    let mut interner = interner::Interner::default();

    let comps: Vec<&str> = vec!["a", "b", "1", "f1", "1a", "a.b", "a-b", "src", "a.capy", "m"];
    let max_depth = if quick { 3 } else { 4 };
    let mut paths: Vec<Vec<String>> = Vec::new();
    fn rec(comps: &[&str], cur: &mut Vec<String>, depth: usize, max: usize, out: &mut Vec<Vec<String>>) {
        if depth > 0 {
            let mut p = cur.clone();
            let last = p.pop().unwrap();
            p.push(format!("{last}.capy"));
            out.push(p);
        }
        if depth == max {
            return;
        }
        for c in comps {
            cur.push(c.to_string());
            rec(comps, cur, depth + 1, max, out);
            cur.pop();
        }
    }
    rec(&comps, &mut Vec::new(), 0, max_depth, &mut paths);

    let indices: Vec<u32> = if quick { vec![0, 1, 12, 123] } else { vec![0, 1, 2, 9, 10, 12, 99, 100, 123, 999] };
    let mut entities: Vec<Entity> = Vec::new();
    let mut bases: Vec<Base> = ["x", "y", "x1", "main", "f1", "l0", "n1x", "E"]
        .iter()
        .map(|n| Base::Global(n.to_string()))
        .collect();
    for &i in &indices {
        bases.push(Base::Lambda(i));
    }
    for b in &bases {
        for generic in std::iter::once(None).chain(indices.iter().map(|g| Some(*g))) {
            entities.push(Entity { base: b.clone(), generic, comptime: None });
            for &k in &indices {
                entities.push(Entity { base: b.clone(), generic, comptime: Some((k, None)) });
                if generic.is_none() || k == indices[1] {
                    for data in ["init_flag", "value"] {
                        entities.push(Entity {
                            base: b.clone(),
                            generic,
                            comptime: Some((k, Some(data.to_string()))),
                        });
                    }
                }
            }
        }
    }

    let listed_models: BTreeSet<String> = known()
        .iter()
        .filter_map(|k| k.model.clone())
        .collect();

    let internals: BTreeSet<String> = internal_names()
        .iter()
        .map(|n| codegen::verif::mangle_internal(n))
        .collect();

    let mut seen: HashMap<String, Desc> = HashMap::new();
    let mut descriptors = 0u64;
    let mut files = 0u64;
    let mut failures = Failures::default();
    let mut excused_by_model: BTreeMap<String, u64> = BTreeMap::new();
    let mut samples = Vec::new();
    for in_mod_dir in [false, true] {
        for path in &paths {
            if in_mod_dir && path.len() < 2 {
                continue; // a file directly in the module directory belongs to no module
            }
            files += 1;
            for entity in &entities {
                let d = Desc { in_mod_dir, path: path.clone(), entity: entity.clone() };
                descriptors += 1;
                let name = match catch(|| mangle(&d, &cwd, &mod_dir, &mut interner)) {
                    Ok(n) => n,
                    Err(p) => {
                        failures.push(Failure {
                            signature: panic_class(&p),
                            input: d.show(),
                            api: "to_mangled_name".into(),
                            detail: p.message,
                        });
                        break;
                    }
                };
                if samples.len() < 4 && descriptors % 9973 == 1 {
                    samples.push(format!("{} -> {}", d.show(), name));
                }
                // the name must decode (uniquely, by the documented format) to the descriptor
                let expected = expected_parts(&d);
                let decoded = decode(&name);
                if decoded.as_ref() != Some(&expected) {
                    let unescaped: Vec<(char, String)> =
                        expected.iter().map(|(k, t)| (*k, unescape(*k, t))).collect();
                    if decoded.as_ref() == Some(&unescaped) && listed_models.contains("digit-leading-escape") {
                        // `f1` decodes to `1`: the listed digit-leading-escape confusion
                        *excused_by_model.entry("digit-leading-escape".into()).or_default() += 1;
                    } else {
                        failures.push(Failure {
                            signature: "name-does-not-decode-to-its-entity".into(),
                            input: d.show(),
                            api: "to_mangled_name".into(),
                            detail: format!("{name} decodes to {decoded:?}, expected {expected:?}"),
                        });
                    }
                }
                if name == "main" || internals.contains(&name) {
                    failures.push(Failure {
                        signature: "collides-with-internal-symbol".into(),
                        input: d.show(),
                        api: "to_mangled_name".into(),
                        detail: format!("mangled name {name}"),
                    });
                }
                if let Some(other) = seen.get(&name) {
                    if *other != d {
                        // which single listed model explains it? else: all listed together?
                        let single = MODELS.iter().find(|m| {
                            listed_models.contains(**m) && {
                                let one: BTreeSet<String> = [m.to_string()].into();
                                other.canon(&one) == d.canon(&one)
                            }
                        });
                        if let Some(m) = single {
                            *excused_by_model.entry(m.to_string()).or_default() += 1;
                        } else if !listed_models.is_empty()
                            && other.canon(&listed_models) == d.canon(&listed_models)
                        {
                            *excused_by_model.entry("combination".into()).or_default() += 1;
                        } else {
                            // name the model that would explain it, if any, to help triage
                            let all: BTreeSet<String> = MODELS.iter().map(|m| m.to_string()).collect();
                            let explain = MODELS
                                .iter()
                                .find(|m| {
                                    let one: BTreeSet<String> = [m.to_string()].into();
                                    other.canon(&one) == d.canon(&one)
                                })
                                .map(|m| m.to_string())
                                .unwrap_or_else(|| {
                                    if other.canon(&all) == d.canon(&all) {
                                        "combination-of-models".into()
                                    } else {
                                        "unexplained".into()
                                    }
                                });
                            failures.push(Failure {
                                signature: format!("symbol-collision({explain})"),
                                input: format!("{}  <=>  {}", other.show(), d.show()),
                                api: "to_mangled_name".into(),
                                detail: format!("both are named {name}"),
                            });
                        }
                    }
                } else {
                    seen.insert(name, d);
                }
            }
        }
    }

    if failures.total() == 0 && seen.len() < 1000 {
        machinery_failure("vacuous run");
    }
    // attribute excused collisions to their findings
    for (model, n) in &excused_by_model {
        let slug = known()
            .iter()
            .find(|k| k.model.as_deref() == Some(model.as_str()))
            .map(|k| k.slug.clone())
            .unwrap_or_else(|| "combination-of-listed-models".to_string());
        failures.excused.insert(slug, (*n, None));
    }

    report.set("states", descriptors);
    report.set("transitions", descriptors);
    report.set("traces_validated_against_impl", descriptors);
    report.set("exhaustive", true);
    report.set("files", files);
    report.set("entities_per_file", entities.len());
    report.set("distinct_outcomes", seen.len());
    report.set("internal_symbols_compared", internals.len() + 1);
    report.set(
        "bounds_completed",
        json!({"path_components": comps, "max_path_components": max_depth, "indices": indices,
               "roots": ["working directory", "module directory"]}),
    );
    report.set("collisions_excused_by_model", json!(excused_by_model));
    report.set("samples", samples);
    report.set(
        "rule",
        "states = entity descriptors mangled by the real Mangle impls; an outcome is a distinct symbol name; \
         injectivity is checked over the whole set at once",
    );
    report.assumptions = vec![
        "two descriptors are the same entity iff file path and entity tuple are equal".into(),
        "a lambda bound to a global shares the global's symbol by design and is not generated as a separate entity".into(),
    ];
    report.failures = failures;
    report.finish()
}
