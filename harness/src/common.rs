//! Shared infrastructure of the in-process engines: argument handling, panic capture,
//! failure bookkeeping, the known-findings file, evidence and replay files.

use std::cell::RefCell;
use std::collections::BTreeMap;
use std::panic::{self, AssertUnwindSafe};
use std::path::PathBuf;
use std::time::Instant;

use serde_json::{json, Value};

pub const VERIF_DIR: &str = "/verif";

#[derive(Debug, Clone, Copy, PartialEq, Eq)]
pub enum Tier {
    Quick,
    Thorough,
}

impl Tier {
    pub fn name(self) -> &'static str {
        match self {
            Tier::Quick => "quick",
            Tier::Thorough => "thorough",
        }
    }
}

pub struct Args {
    pub tier: Tier,
    pub seed: i64,
    pub rest: Vec<String>,
}

pub fn parse_args(args: &[String]) -> Args {
    let mut tier = Tier::Quick;
    let mut rest = Vec::new();
    for a in args {
        match a.as_str() {
            "quick" => tier = Tier::Quick,
            "thorough" => tier = Tier::Thorough,
            _ => rest.push(a.clone()),
        }
    }
    let seed = std::env::var("VERIF_SEED")
        .ok()
        .and_then(|s| s.parse().ok())
        .unwrap_or(0);
    Args { tier, seed, rest }
}

// ---------------------------------------------------------------------------------------------
// panic capture

#[derive(Debug, Clone)]
pub struct PanicInfo {
    pub message: String,
    /// file:line of the panic
    pub location: String,
    /// file (without line) of the panic
    pub file: String,
}

thread_local! {
    static LAST_PANIC: RefCell<Option<PanicInfo>> = const { RefCell::new(None) };
    static CAPTURING: RefCell<bool> = const { RefCell::new(false) };
}

pub fn install_panic_hook() {
    let default = panic::take_hook();
    panic::set_hook(Box::new(move |info| {
        let capturing = CAPTURING.with(|c| *c.borrow());
        if !capturing {
            default(info);
            return;
        }
        let message = if let Some(s) = info.payload().downcast_ref::<&str>() {
            s.to_string()
        } else if let Some(s) = info.payload().downcast_ref::<String>() {
            s.clone()
        } else {
            "<non-string panic payload>".to_string()
        };
        let (location, file) = info
            .location()
            .map(|l| (format!("{}:{}", l.file(), l.line()), l.file().to_string()))
            .unwrap_or_default();
        LAST_PANIC.with(|p| {
            *p.borrow_mut() = Some(PanicInfo {
                message,
                location,
                file,
            })
        });
    }));
}

/// Runs `f`, turning a panic into `Err(PanicInfo)`
pub fn catch<T>(f: impl FnOnce() -> T) -> Result<T, PanicInfo> {
    CAPTURING.with(|c| *c.borrow_mut() = true);
    let res = panic::catch_unwind(AssertUnwindSafe(f));
    CAPTURING.with(|c| *c.borrow_mut() = false);
    match res {
        Ok(v) => Ok(v),
        Err(_) => Err(LAST_PANIC.with(|p| p.borrow_mut().take()).unwrap_or(PanicInfo {
            message: "<unknown panic>".into(),
            location: String::new(),
            file: String::new(),
        })),
    }
}

/// shortens a panic message to something stable (no addresses, no long payloads)
pub fn panic_class(info: &PanicInfo) -> String {
    let file = info
        .file
        .rsplit("crates/")
        .next()
        .unwrap_or(&info.file)
        .to_string();
    // digits (lengths, indices) are collapsed and quoted source text is dropped so that the class
    // is stable across inputs
    let mut msg = String::new();
    let mut in_quote = false;
    for c in info.message.chars() {
        if c == '`' {
            in_quote = !in_quote;
            if !in_quote {
                msg.push_str("`..`");
            }
            continue;
        }
        if in_quote {
            continue;
        }
        if c.is_ascii_digit() {
            if !msg.ends_with('#') {
                msg.push('#');
            }
        } else {
            msg.push(c);
        }
        if msg.len() >= 60 {
            break;
        }
    }
    format!("panic@{}:{}", file, msg.replace('\n', " "))
}

// ---------------------------------------------------------------------------------------------
// failures

#[derive(Debug, Clone)]
pub struct Failure {
    /// the class of what was observed, stable across inputs: e.g. `panic@parser/src/sink.rs:index out of bounds`
    pub signature: String,
    /// the input (or operation history), verbatim
    pub input: String,
    /// the entry point / API that was called
    pub api: String,
    /// free text: what was expected, what was seen
    pub detail: String,
}

/// Bookkeeping of failing cases. Every pushed case is matched against the known findings of the
/// property *at push time* (so that nothing hides behind the example cap): excused cases are
/// only counted per finding, unexplained ones are kept per signature (count + shortest examples).
#[derive(Debug, Default, Clone)]
pub struct Failures {
    pub by_sig: BTreeMap<String, SigFailures>,
    /// finding slug -> (count, shortest example)
    pub excused: BTreeMap<String, (u64, Option<Failure>)>,
}

#[derive(Debug, Default, Clone)]
pub struct SigFailures {
    pub count: u64,
    pub examples: Vec<Failure>,
}

const MAX_EXAMPLES: usize = 200;

static KNOWN: std::sync::OnceLock<Vec<KnownFinding>> = std::sync::OnceLock::new();
static EMIT_KNOWN: std::sync::OnceLock<bool> = std::sync::OnceLock::new();

pub fn known() -> &'static [KnownFinding] {
    KNOWN.get().map(|v| v.as_slice()).unwrap_or(&[])
}

fn keep_shortest(examples: &mut Vec<Failure>, f: Failure) {
    if examples.len() < MAX_EXAMPLES || EMIT_KNOWN.get().copied().unwrap_or(false) {
        examples.push(f);
    } else if let Some(longest) = examples
        .iter_mut()
        .max_by_key(|x| x.input.len())
        .filter(|x| x.input.len() > f.input.len())
    {
        *longest = f;
    }
}

impl Failures {
    pub fn push(&mut self, f: Failure) {
        if !EMIT_KNOWN.get().copied().unwrap_or(false) {
            if let Some(k) = known().iter().find(|k| k.matches(&f)) {
                let e = self.excused.entry(k.slug.clone()).or_insert((0, None));
                e.0 += 1;
                if e.1.as_ref().is_none_or(|old| old.input.len() > f.input.len()) {
                    e.1 = Some(f);
                }
                return;
            }
        }
        let e = self.by_sig.entry(f.signature.clone()).or_default();
        e.count += 1;
        keep_shortest(&mut e.examples, f);
    }

    pub fn merge(&mut self, other: Failures) {
        for (sig, sf) in other.by_sig {
            let e = self.by_sig.entry(sig).or_default();
            e.count += sf.count;
            for f in sf.examples {
                keep_shortest(&mut e.examples, f);
            }
        }
        for (slug, (n, ex)) in other.excused {
            let e = self.excused.entry(slug).or_insert((0, None));
            e.0 += n;
            if let Some(ex) = ex {
                if e.1.as_ref().is_none_or(|old| old.input.len() > ex.input.len()) {
                    e.1 = Some(ex);
                }
            }
        }
    }

    /// unexplained failing cases
    pub fn total(&self) -> u64 {
        self.by_sig.values().map(|s| s.count).sum()
    }

    pub fn excused_total(&self) -> u64 {
        self.excused.values().map(|s| s.0).sum()
    }

    pub fn all(&self) -> impl Iterator<Item = &Failure> {
        self.by_sig.values().flat_map(|s| s.examples.iter())
    }
}

// ---------------------------------------------------------------------------------------------
// known findings
//
// line format (see DESIGN.md §5):
//   known: property=C23 finding=<slug> api=<api or *> signature=<substring of the signature> input_re=<regex on the input> :: text
//   fixed: property=C23 <commit> <text>
// fields are separated by single spaces; `input_re` is the last field before ` :: ` and may contain spaces.

#[derive(Debug, Clone)]
pub struct KnownFinding {
    pub property: String,
    pub slug: String,
    pub api: String,
    pub signature: String,
    pub input_re: regex::Regex,
    /// engines with defect models (C27): the name of the model
    pub model: Option<String>,
    /// a committed file with one hash per excused input (see `case_hash`)
    pub cases: Option<std::collections::BTreeSet<u64>>,
    pub text: String,
}

/// the identity of a failing case in a `cases=` file
pub fn case_hash(api: &str, input: &str) -> u64 {
    fxhash(&format!("{api}\u{0}{input}"))
}

pub fn load_known(property: &str) -> Vec<KnownFinding> {
    let path = format!("{VERIF_DIR}/known_findings.txt");
    let Ok(text) = std::fs::read_to_string(&path) else {
        return Vec::new();
    };
    let mut res = Vec::new();
    for line in text.lines() {
        let line = line.trim();
        let Some(rest) = line.strip_prefix("known:") else {
            continue;
        };
        let (fields, text) = rest.split_once(" :: ").unwrap_or((rest, ""));
        let fields = fields.trim();
        let get = |key: &str| -> Option<String> {
            let pat = format!("{key}=");
            let start = if fields.starts_with(&pat) {
                pat.len()
            } else {
                fields.find(&format!(" {pat}"))? + pat.len() + 1
            };
            let tail = &fields[start..];
            if key == "input_re" || key == "signature" {
                // these may contain spaces: they run until the next ` key=` of a known key or the end
                let mut end = tail.len();
                for k in [" input_re=", " cases=", " model=", " api=", " signature=", " finding="] {
                    if let Some(i) = tail.find(k) {
                        end = end.min(i);
                    }
                }
                Some(tail[..end].to_string())
            } else {
                Some(tail.split(' ').next().unwrap_or("").to_string())
            }
        };
        if get("property").as_deref() != Some(property) {
            continue;
        }
        if get("engine").as_deref() == Some("progmc") {
            continue;
        }
        let input_re = get("input_re").unwrap_or_else(|| ".*".to_string());
        let input_re = regex::RegexBuilder::new(&format!("^(?s:{})$", input_re))
            .size_limit(50_000_000)
            .build()
            .unwrap_or_else(|e| {
                eprintln!("known_findings.txt: bad regex in line `{line}`: {e}");
                std::process::exit(2)
            });
        let cases = get("cases").map(|file| {
            let p = format!("{VERIF_DIR}/{file}");
            let t = std::fs::read_to_string(&p).unwrap_or_else(|e| {
                eprintln!("known_findings.txt: cannot read cases file {p}: {e}");
                std::process::exit(2)
            });
            t.lines()
                .filter_map(|l| u64::from_str_radix(l.split_whitespace().next()?, 16).ok())
                .collect()
        });
        res.push(KnownFinding {
            property: property.to_string(),
            slug: get("finding").unwrap_or_default(),
            api: get("api").unwrap_or_else(|| "*".into()),
            signature: get("signature").unwrap_or_default(),
            input_re,
            model: get("model"),
            cases,
            text: text.to_string(),
        });
    }
    res
}

impl KnownFinding {
    pub fn matches(&self, f: &Failure) -> bool {
        // findings with a defect model are attributed by the engine that owns the model; a
        // finding without any signature would match everything and is never used for matching
        if self.model.is_some() || (self.signature.is_empty() && self.cases.is_none()) {
            return false;
        }
        (self.api == "*" || self.api == f.api)
            && f.signature.contains(&self.signature)
            && self.input_re.is_match(&f.input)
            && self
                .cases
                .as_ref()
                .is_none_or(|c| c.contains(&case_hash(&f.api, &f.input)))
    }
}

// ---------------------------------------------------------------------------------------------
// the final report

pub struct Report {
    pub property: String,
    pub tier: Tier,
    pub seed: i64,
    pub started: Instant,
    pub coverage: serde_json::Map<String, Value>,
    pub assumptions: Vec<String>,
    pub failures: Failures,
}

impl Report {
    pub fn new(property: &str, args: &Args) -> Self {
        let _ = KNOWN.set(load_known(property));
        let _ = EMIT_KNOWN.set(args.rest.iter().any(|a| a == "--emit-known"));
        Self {
            property: property.to_string(),
            tier: args.tier,
            seed: args.seed,
            started: Instant::now(),
            coverage: serde_json::Map::new(),
            assumptions: Vec::new(),
            failures: Failures::default(),
        }
    }

    pub fn set(&mut self, key: &str, v: impl Into<Value>) {
        self.coverage.insert(key.to_string(), v.into());
    }

    /// Writes replays and evidence, prints KNOWN-FINDING / VIOLATION lines and exits.
    ///
    /// every failure is matched against known_findings.txt; *every* recorded example of a signature
    /// must be matched by a known finding for the signature to be excused.
    pub fn finish(mut self) -> ! {
        // `--emit-known`: write every unexplained failing case as `<hash> <signature>` lines, for
        // review and (after confirmation through the real CLI) for a committed cases file
        if EMIT_KNOWN.get().copied().unwrap_or(false) {
            let dir = format!("{VERIF_DIR}/work/emit-known");
            let _ = std::fs::create_dir_all(&dir);
            let path = format!("{dir}/{}.{}.txt", self.property, self.tier.name());
            let mut out = String::new();
            for (sig, sf) in &self.failures.by_sig {
                out.push_str(&format!("# {} cases; signature {sig}\n", sf.count));
                if sf.count as usize > sf.examples.len() {
                    out.push_str("# WARNING: more cases than recorded examples\n");
                }
                for f in &sf.examples {
                    out.push_str(&format!("{:016x} {}\n", case_hash(&f.api, &f.input), sig));
                }
            }
            let _ = std::fs::write(&path, out);
            println!("emitted {} unexplained cases to {path}", self.failures.total());
        }
        let hits: BTreeMap<String, (u64, String)> = self
            .failures
            .excused
            .iter()
            .map(|(slug, (n, _))| {
                let text = known()
                    .iter()
                    .find(|k| &k.slug == slug)
                    .map(|k| k.text.clone())
                    .unwrap_or_default();
                (slug.clone(), (*n, text))
            })
            .collect();
        let mut violations: Vec<&Failure> = self.failures.all().collect();
        // shortest first, so the first reported is the easiest to read
        violations.sort_by_key(|f| (f.input.len(), f.input.clone()));

        let replay_dir = PathBuf::from(format!("{VERIF_DIR}/replays/{}", self.property));
        let mut replay_paths = Vec::new();
        if !violations.is_empty() {
            let _ = std::fs::create_dir_all(&replay_dir);
        }
        let mut seen_sigs = BTreeMap::<String, usize>::new();
        for f in &violations {
            let n = seen_sigs.entry(f.signature.clone()).or_insert(0);
            *n += 1;
            if *n > 3 {
                continue; // at most three replay files per signature
            }
            let h = fxhash(&format!("{}|{}|{}", f.api, f.signature, f.input));
            let path = replay_dir.join(format!("{h:016x}.json"));
            let v = json!({
                "property": self.property,
                "engine": "capy-verif",
                "api": f.api,
                "input": f.input,
                "signature": f.signature,
                "detail": f.detail,
            });
            let _ = std::fs::write(&path, serde_json::to_string_pretty(&v).unwrap());
            replay_paths.push((path, (*f).clone()));
        }

        let n_viol_sigs = seen_sigs.len();
        let violation_count = self.failures.total() as usize;

        let failure_summary: Vec<Value> = self
            .failures
            .by_sig
            .iter()
            .map(|(sig, sf)| {
                json!({"signature": sig, "count": sf.count,
                       "shortest_input": sf.examples.iter().min_by_key(|f| f.input.len()).map(|f| f.input.clone())})
            })
            .collect();
        self.coverage
            .insert("failure_signatures".into(), Value::Array(failure_summary));
        self.coverage.insert(
            "known_findings_hit".into(),
            Value::Array(
                hits.iter()
                    .map(|(slug, (n, _))| json!({"finding": slug, "cases_matched": n}))
                    .collect(),
            ),
        );

        let evidence = json!({
            "property_id": self.property,
            "tier": self.tier.name(),
            "seed": self.seed,
            "level": "model_checking",
            "coverage": Value::Object(self.coverage.clone()),
            "assumptions": self.assumptions,
            "wall_s": self.started.elapsed().as_secs_f64(),
            "violations": violation_count,
        });
        let ev_dir = format!("{VERIF_DIR}/evidence");
        let _ = std::fs::create_dir_all(&ev_dir);
        // CAPY_VERIF_EVIDENCE_SUFFIX: a second engine of the same property (C07's program-level half) merges this file
        let suffix = std::env::var("CAPY_VERIF_EVIDENCE_SUFFIX").unwrap_or_default();
        let ev_path = format!("{ev_dir}/{}{suffix}.json", self.property);
        if let Err(e) = std::fs::write(&ev_path, serde_json::to_string_pretty(&evidence).unwrap())
        {
            eprintln!("cannot write evidence {ev_path}: {e}");
            std::process::exit(2);
        }

        for (slug, (n, text)) in &hits {
            println!(
                "KNOWN-FINDING: property={} {} [{}; {} recorded cases]",
                self.property, text, slug, n
            );
        }
        for (path, f) in &replay_paths {
            println!(
                "VIOLATION property={} replay={}  # {} :: {:?}",
                self.property,
                path.display(),
                f.signature,
                truncate(&f.input, 80)
            );
        }
        println!(
            "{} {}: {} failing cases excused by known findings; {} unexplained in {} signatures; evidence {}",
            self.property,
            self.tier.name(),
            self.failures.excused_total(),
            violation_count,
            n_viol_sigs,
            ev_path
        );
        std::process::exit(if violation_count > 0 { 1 } else { 0 })
    }
}

pub fn truncate(s: &str, n: usize) -> String {
    if s.chars().count() <= n {
        s.to_string()
    } else {
        let t: String = s.chars().take(n).collect();
        format!("{t}…")
    }
}

pub fn fxhash(s: &str) -> u64 {
    use std::hash::{Hash, Hasher};
    let mut h = rustc_hash::FxHasher::default();
    s.hash(&mut h);
    h.finish()
}

/// machinery failure: never a verdict
pub fn machinery_failure(msg: &str) -> ! {
    eprintln!("MACHINERY FAILURE: {msg}");
    std::process::exit(2)
}

// ---------------------------------------------------------------------------------------------
// exhaustive enumeration of strings over an alphabet, sharded over all cores

pub trait Acc: Default + Send {
    fn merge(&mut self, other: Self);
}

/// Calls `f(acc, symbol indices, concatenated text)` for every sequence of `len` symbols.
/// The work is split by the first two symbols; the result is independent of the thread count.
pub fn for_all_sequences<A: Acc>(
    alphabet: &[&str],
    len: usize,
    f: &(dyn Fn(&mut A, &[usize], &str) + Sync),
) -> A {
    use rayon::prelude::*;
    let n = alphabet.len();
    if len == 0 {
        let mut acc = A::default();
        f(&mut acc, &[], "");
        return acc;
    }
    let split = len.min(2);
    let prefixes = n.pow(split as u32);
    (0..prefixes)
        .into_par_iter()
        .fold(A::default, |mut acc, p| {
            let mut idx = vec![0usize; len];
            let mut q = p;
            for i in (0..split).rev() {
                idx[i] = q % n;
                q /= n;
            }
            let mut text = String::new();
            loop {
                text.clear();
                for &i in &idx {
                    text.push_str(alphabet[i]);
                }
                f(&mut acc, &idx, &text);
                // increment the suffix
                let mut pos = len;
                loop {
                    if pos == split {
                        return acc;
                    }
                    pos -= 1;
                    idx[pos] += 1;
                    if idx[pos] < n {
                        break;
                    }
                    idx[pos] = 0;
                }
            }
        })
        .reduce(A::default, |mut a, b| {
            a.merge(b);
            a
        })
}
