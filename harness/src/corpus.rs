//! The test-input corpus, re-extracted from /repo at run time: every `.capy` file (examples,
//! core), the parser's `.test` inputs, and every raw string literal embedded in the test modules.

use std::path::{Path, PathBuf};

fn walk(dir: &Path, out: &mut Vec<PathBuf>, pred: &dyn Fn(&Path) -> bool) {
    let Ok(rd) = std::fs::read_dir(dir) else {
        return;
    };
    let mut entries: Vec<_> = rd.filter_map(|e| e.ok()).map(|e| e.path()).collect();
    entries.sort();
    for p in entries {
        if p.is_dir() {
            let name = p.file_name().unwrap().to_string_lossy().to_string();
            if name == "target" || name == ".git" || name == "out" {
                continue;
            }
            walk(&p, out, pred);
        } else if pred(&p) {
            out.push(p);
        }
    }
}

pub fn capy_files() -> Vec<PathBuf> {
    let mut out = Vec::new();
    walk(Path::new("/repo"), &mut out, &|p| {
        p.extension().is_some_and(|e| e == "capy")
    });
    out
}

/// (origin, text) of every snippet: `.capy` files, parser `.test` inputs (the part before `===`),
/// and raw string literals `r#"..."#` of the test modules that look like capy source.
pub fn snippets() -> Vec<(String, String)> {
    let mut res = Vec::new();
    for p in capy_files() {
        if let Ok(t) = std::fs::read_to_string(&p) {
            res.push((p.display().to_string(), t));
        }
    }
    let mut tests = Vec::new();
    walk(Path::new("/repo/crates"), &mut tests, &|p| {
        p.extension().is_some_and(|e| e == "test")
    });
    for p in tests {
        if let Ok(t) = std::fs::read_to_string(&p) {
            let input = t.split("\n===").next().unwrap_or("").to_string();
            res.push((p.display().to_string(), input));
        }
    }
    let mut rs = Vec::new();
    walk(Path::new("/repo/crates"), &mut rs, &|p| {
        p.extension().is_some_and(|e| e == "rs")
            && p.components().any(|c| {
                let c = c.as_os_str().to_string_lossy();
                c == "tests" || c == "tests.rs"
            })
    });
    for p in rs {
        let Ok(t) = std::fs::read_to_string(&p) else {
            continue;
        };
        let mut rest = t.as_str();
        let mut n = 0;
        while let Some(start) = rest.find("r#\"") {
            let before = &rest[..start];
            let after = &rest[start + 3..];
            let Some(end) = after.find("\"#") else { break };
            let body = &after[..end];
            // skip expect![[r#"..."#]] blocks (expected output, not source)
            if !before.trim_end().ends_with("[[") {
                res.push((format!("{}#{}", p.display(), n), body.to_string()));
                n += 1;
            }
            rest = &after[end + 2..];
        }
    }
    res
}
