//! The real compiler pipeline, in process: lex -> parse -> validate -> index -> lower -> infer
//! (with the real comptime JIT) -> [codegen to an object].  This mirrors `compile_file` of
//! /repo/crates/capy/src/main.rs and the test harness of hir_ty (`fake_file_system = true`).
//!
//! Because the pipeline can abort the process (stack overflow, `process::exit` in codegen,
//! JIT-executed user code), sweeps run it in *worker child processes* of this same binary,
//! supervised by `Pool`: a worker that dies or exceeds its deadline is attributed to the single
//! request it was processing and restarted.

use std::collections::BTreeMap;
use std::io::{BufRead, BufReader, Write};
use std::path::{Path, PathBuf};
use std::process::{Child, Command, Stdio};
use std::sync::atomic::{AtomicU64, Ordering};
use std::sync::{Arc, Mutex};
use std::time::{Duration, Instant};

use ast::AstNode;
use hir::common::{ComptimeResultMap, FileName, Fqn, Name};
use serde_json::{json, Value};

use crate::common::*;
use crate::linecol_mc::RenderAcc;

pub const MARK: &str = "@@VERIF@@ ";

#[derive(Debug, Clone)]
pub struct Request {
    pub id: u64,
    /// (file name, text); the first one is the file given on the command line
    pub modules: Vec<(String, String)>,
    pub entry: Option<String>,
    pub codegen: bool,
    pub sched: bool,
    pub track_unsafe: bool,
}

impl Request {
    pub fn single(id: u64, text: &str) -> Self {
        Self {
            id,
            modules: vec![("main.capy".into(), text.to_string())],
            entry: Some("main".into()),
            codegen: false,
            sched: false,
            track_unsafe: true,
        }
    }

    pub fn to_json(&self) -> Value {
        json!({"id": self.id, "modules": self.modules, "entry": self.entry, "codegen": self.codegen,
               "sched": self.sched, "track_unsafe": self.track_unsafe})
    }

    pub fn from_json(v: &Value) -> Self {
        Self {
            id: v["id"].as_u64().unwrap_or(0),
            modules: v["modules"]
                .as_array()
                .map(|a| {
                    a.iter()
                        .map(|m| {
                            (
                                m[0].as_str().unwrap_or("").to_string(),
                                m[1].as_str().unwrap_or("").to_string(),
                            )
                        })
                        .collect()
                })
                .unwrap_or_default(),
            entry: v["entry"].as_str().map(|s| s.to_string()),
            codegen: v["codegen"].as_bool().unwrap_or(false),
            sched: v["sched"].as_bool().unwrap_or(false),
            track_unsafe: v["track_unsafe"].as_bool().unwrap_or(true),
        }
    }
}

/// What one compilation did. Serialised as JSON between worker and parent.
#[derive(Debug, Clone, Default)]
pub struct Outcome {
    pub id: u64,
    /// "ok" | "panic" | "skipped" | "died" | "timeout"
    pub status: String,
    pub detail: String,
    pub stage: String,
    pub diags: Vec<DiagOut>,
    pub has_errors: bool,
    pub any_unsafe: bool,
    pub object_len: Option<u64>,
    pub rounds: u64,
    pub sched: Vec<String>,
}

#[derive(Debug, Clone, Default)]
pub struct DiagOut {
    pub stage: String,
    pub error: bool,
    pub kind: String,
    pub file: String,
    pub start: u32,
    pub end: u32,
    /// "" if rendering was right, else what was wrong
    pub render_problem: String,
    /// type diagnostics only: the diagnostic is attached to an expression
    pub has_expr: bool,
}

impl Outcome {
    pub fn to_json(&self) -> Value {
        json!({
            "id": self.id, "status": self.status, "detail": self.detail, "stage": self.stage,
            "diags": self.diags.iter().map(|d| json!([d.stage, d.error, d.kind, d.file, d.start, d.end, d.render_problem, d.has_expr])).collect::<Vec<_>>(),
            "has_errors": self.has_errors, "any_unsafe": self.any_unsafe, "object_len": self.object_len,
            "rounds": self.rounds, "sched": self.sched,
        })
    }

    pub fn from_json(v: &Value) -> Self {
        Self {
            id: v["id"].as_u64().unwrap_or(0),
            status: v["status"].as_str().unwrap_or("").into(),
            detail: v["detail"].as_str().unwrap_or("").into(),
            stage: v["stage"].as_str().unwrap_or("").into(),
            diags: v["diags"]
                .as_array()
                .map(|a| {
                    a.iter()
                        .map(|d| DiagOut {
                            stage: d[0].as_str().unwrap_or("").into(),
                            error: d[1].as_bool().unwrap_or(false),
                            kind: d[2].as_str().unwrap_or("").into(),
                            file: d[3].as_str().unwrap_or("").into(),
                            start: d[4].as_u64().unwrap_or(0) as u32,
                            end: d[5].as_u64().unwrap_or(0) as u32,
                            render_problem: d[6].as_str().unwrap_or("").into(),
                            has_expr: d[7].as_bool().unwrap_or(false),
                        })
                        .collect()
                })
                .unwrap_or_default(),
            has_errors: v["has_errors"].as_bool().unwrap_or(false),
            any_unsafe: v["any_unsafe"].as_bool().unwrap_or(false),
            object_len: v["object_len"].as_u64(),
            rounds: v["rounds"].as_u64().unwrap_or(0),
            sched: v["sched"]
                .as_array()
                .map(|a| a.iter().map(|s| s.as_str().unwrap_or("").to_string()).collect())
                .unwrap_or_default(),
        }
    }
}

fn kind_name(debug: String) -> String {
    debug
        .split(|c: char| !(c.is_alphanumeric() || c == '_'))
        .next()
        .unwrap_or("")
        .to_string()
}

/// renders `d` and compares the header with the reference position; "" if fine
fn render_problem(
    d: &diagnostics::Diagnostic,
    file: &str,
    text: &str,
    interner: &interner::Interner,
) -> String {
    let index = line_index::LineIndex::new(text);
    let range = d.range();
    let start = usize::from(range.start());
    let mod_dir = Path::new("");
    match catch(|| d.display(file, text, mod_dir, interner, &index, false)) {
        Err(p) => format!("render-{} :: {} at {}", panic_class(&p), p.message, p.location),
        Ok(lines) => {
            if start > text.len() {
                return format!("diagnostic-range-outside-input :: {range:?} in {} bytes", text.len());
            }
            let (l, c) = crate::linecol_mc::reference_line_col(text, start);
            let tail = format!(":{}:{}", l + 1, c + 1);
            match lines.iter().find(|l| l.contains("--> at ")) {
                Some(h) if h.trim_end().ends_with(&tail) => String::new(),
                other => format!("header-position-wrong :: range {range:?}: expected {tail}, got {other:?}"),
            }
        }
    }
}

/// One complete compilation, on the calling thread. Never unwinds (panics are caught).
pub fn compile(req: &Request) -> Outcome {
    let mut out = Outcome {
        id: req.id,
        status: "ok".into(),
        ..Default::default()
    };
    let stage = std::cell::RefCell::new(String::from("start"));
    let res = catch(|| compile_inner(req, &mut out, &stage));
    out.stage = stage.borrow().clone();
    if let Err(p) = res {
        out.status = "panic".into();
        out.detail = format!("{} :: {} at {}", panic_class(&p), p.message, p.location);
    }
    out.rounds = hir_ty::verif::rounds();
    out
}

fn compile_inner(req: &Request, out: &mut Outcome, stage: &std::cell::RefCell<String>) {
    let mut interner = interner::Interner::default();
    let mut world_index = hir::WorldIndex::default();
    let mut world_bodies = hir::WorldBodies::default();
    let mut uid_gen = uid_gen::UIDGenerator::default();
    let mod_dir = Path::new("");

    let provided: BTreeMap<&str, &str> = req
        .modules
        .iter()
        .map(|(n, t)| (n.as_str(), t.as_str()))
        .collect();

    let mut texts: BTreeMap<FileName, (String, String)> = BTreeMap::new();
    let mut pending_diags: Vec<(String, bool, String, FileName, diagnostics::Diagnostic)> = Vec::new();
    let mut ty_has_expr: Vec<bool> = Vec::new();
    let mut worklist: Vec<String> = vec![req.modules[0].0.clone()];
    let mut main_file = None;

    while let Some(name) = worklist.pop() {
        let module = FileName(interner.intern(&name));
        if texts.contains_key(&module) {
            continue;
        }
        let Some(text) = provided.get(name.as_str()) else {
            out.status = "skipped".into();
            out.detail = format!("unresolved import {name}");
            return;
        };
        if main_file.is_none() {
            main_file = Some(module);
        }
        texts.insert(module, (name.clone(), text.to_string()));

        *stage.borrow_mut() = "lex".into();
        let tokens = lexer::lex(text);
        *stage.borrow_mut() = "parse".into();
        parser::verif::set_fuel(Some(
            crate::parse_mc::FUEL_BASE + crate::parse_mc::FUEL_PER_TOKEN * tokens.len() as u64,
        ));
        let parse = parser::parse_source_file(&tokens, text);
        parser::verif::set_fuel(None);
        for e in parse.errors() {
            pending_diags.push((
                "syntax".into(),
                true,
                kind_name(format!("{:?}", e.kind)),
                module,
                diagnostics::Diagnostic::from_syntax(*e),
            ));
        }
        let tree = parse.syntax_tree();
        let root = ast::Root::cast(tree.root(), tree).unwrap();
        *stage.borrow_mut() = "validate".into();
        for d in ast::validation::validate(root, tree) {
            pending_diags.push((
                "validation".into(),
                false,
                kind_name(format!("{:?}", d.kind)),
                module,
                diagnostics::Diagnostic::from_validation(d),
            ));
        }
        *stage.borrow_mut() = "index".into();
        let (index, index_diags) = hir::index(root, tree, &mut interner);
        for d in index_diags {
            pending_diags.push((
                "indexing".into(),
                true,
                kind_name(format!("{:?}", d.kind)),
                module,
                diagnostics::Diagnostic::from_indexing(d),
            ));
        }
        *stage.borrow_mut() = "lower".into();
        let (bodies, lowering_diags) = hir::lower(
            root,
            tree,
            Path::new(&name),
            &index,
            &mut uid_gen,
            &mut interner,
            mod_dir,
            true,
        );
        for d in lowering_diags {
            let is_error = d.is_error();
            pending_diags.push((
                "lowering".into(),
                is_error,
                kind_name(format!("{:?}", d.kind)),
                module,
                diagnostics::Diagnostic::from_lowering(d),
            ));
        }
        world_index.add_file(module, index);
        for import in bodies.imports() {
            worklist.push(interner.lookup(import.0).to_string());
        }
        world_bodies.add_file(module, bodies);
    }

    let main_file = main_file.unwrap();
    let entry_point = req.entry.as_ref().and_then(|e| {
        let name = Name(interner.intern(e));
        // like main.rs: the first file that has a global of that name
        texts
            .keys()
            .find(|f| world_bodies[**f].global_exists(name))
            .map(|f| Fqn { file: *f, name })
    });
    let _ = main_file;

    *stage.borrow_mut() = "infer".into();
    let mut comptime_results = ComptimeResultMap::default();
    let mut generic_values = la_arena::Arena::new();
    hir_ty::verif::start_recording(req.sched, Some(100_000));
    let pointer_bits = target_lexicon::Triple::host().pointer_width().unwrap().bits();
    let hir_ty::InferenceResult {
        tys,
        diagnostics: ty_diags,
        any_were_unsafe_to_compile,
    } = hir_ty::InferenceCtx::new(
        &world_index,
        &world_bodies,
        &interner,
        &mut generic_values,
        |comptime, tys| {
            if let Some(r) = comptime_results.get(comptime) {
                return r.clone();
            }
            codegen::eval_comptime_blocks(
                codegen::Verbosity::None,
                &mut std::iter::once(comptime),
                &mut comptime_results,
                mod_dir,
                &interner,
                &world_bodies,
                tys,
                pointer_bits,
            );
            comptime_results[comptime].clone()
        },
    )
    .finish(entry_point, req.track_unsafe);
    out.any_unsafe = any_were_unsafe_to_compile;
    if req.sched {
        out.sched = hir_ty::verif::take_trace()
            .into_iter()
            .map(|op| format!("{op:?}"))
            .collect();
    }
    for d in ty_diags {
        let is_error = d.is_error();
        let file = d.file;
        ty_has_expr.push(d.expr.is_some());
        pending_diags.push((
            "ty".into(),
            is_error,
            kind_name(format!("{:?}", d.kind)),
            file,
            diagnostics::Diagnostic::from_ty(d),
        ));
    }

    *stage.borrow_mut() = "render".into();
    let mut ty_idx = 0;
    for (stage_name, is_error, kind, file, d) in pending_diags {
        let has_expr = if stage_name == "ty" {
            ty_idx += 1;
            ty_has_expr[ty_idx - 1]
        } else {
            false
        };
        let (name, text) = &texts[&file];
        let problem = render_problem(&d, name, text, &interner);
        let r = d.range();
        out.has_errors |= is_error;
        out.diags.push(DiagOut {
            stage: stage_name,
            error: is_error,
            kind,
            file: name.clone(),
            start: r.start().into(),
            end: r.end().into(),
            render_problem: problem,
            has_expr,
        });
    }

    if out.has_errors || !req.codegen {
        return;
    }
    let Some(entry_point) = entry_point else {
        return;
    };
    *stage.borrow_mut() = "comptime".into();
    codegen::eval_comptime_blocks(
        codegen::Verbosity::None,
        &mut world_bodies.find_comptimes(),
        &mut comptime_results,
        mod_dir,
        &interner,
        &world_bodies,
        &tys,
        pointer_bits,
    );
    *stage.borrow_mut() = "codegen".into();
    match codegen::compile_obj(
        codegen::Verbosity::None,
        entry_point.make_concrete(None),
        mod_dir,
        &interner,
        &world_bodies,
        &tys,
        &comptime_results,
        target_lexicon::Triple::host(),
    ) {
        Ok(bytes) => out.object_len = Some(bytes.len() as u64),
        Err(e) => {
            out.status = "panic".into();
            out.detail = format!("cranelift-error :: {e}");
        }
    }
}

// ---------------------------------------------------------------------------------------------
// worker side

pub fn worker_main() -> ! {
    let stdin = std::io::stdin();
    for line in stdin.lock().lines() {
        let Ok(line) = line else { break };
        if line.is_empty() {
            continue;
        }
        let v: Value = match serde_json::from_str(&line) {
            Ok(v) => v,
            Err(_) => continue,
        };
        let req = Request::from_json(&v);
        // a fresh thread per compilation: the compiler keeps per-thread state (ENUM_MAP,
        // TYPE_NAMES, GLOBAL_LAMBDAS) that is keyed by interner keys, which restart at 0
        // for every compilation. 8 MiB is the main thread's stack size of the real CLI.
        let handle = std::thread::Builder::new()
            .stack_size(8 << 20)
            .spawn(move || compile(&req))
            .unwrap();
        let out = handle.join().unwrap_or_else(|_| Outcome {
            status: "panic".into(),
            detail: "panic escaped catch_unwind".into(),
            ..Default::default()
        });
        let mut so = std::io::stdout().lock();
        let _ = writeln!(so, "\n{MARK}{}", out.to_json());
        let _ = so.flush();
    }
    std::process::exit(0)
}

// ---------------------------------------------------------------------------------------------
// parent side

struct Worker {
    child: Child,
    reader: BufReader<std::process::ChildStdout>,
}

fn spawn_worker() -> Worker {
    let exe = std::env::current_exe().unwrap();
    let mut child = Command::new(exe)
        .arg("front-worker")
        .stdin(Stdio::piped())
        .stdout(Stdio::piped())
        .stderr(Stdio::null())
        .spawn()
        .unwrap_or_else(|e| machinery_failure(&format!("cannot spawn worker: {e}")));
    let reader = BufReader::new(child.stdout.take().unwrap());
    Worker { child, reader }
}

/// Runs every request produced by `next` on `threads` worker processes and hands each outcome
/// (with its request) to `sink`. Deterministic in content (not in order).
pub fn run_pool(
    threads: usize,
    per_request_timeout: Duration,
    next: &(dyn Fn() -> Option<Request> + Sync),
    sink: &(dyn Fn(&Request, Outcome) + Sync),
) {
    let deadlines: Vec<Arc<(AtomicU64, Mutex<Option<u32>>)>> = (0..threads)
        .map(|_| Arc::new((AtomicU64::new(u64::MAX), Mutex::new(None))))
        .collect();
    let start = Instant::now();
    let done = Arc::new(std::sync::atomic::AtomicBool::new(false));

    std::thread::scope(|scope| {
        // watchdog: kills workers that are past their deadline
        {
            let deadlines = deadlines.clone();
            let done = done.clone();
            scope.spawn(move || {
                while !done.load(Ordering::Relaxed) {
                    std::thread::sleep(Duration::from_millis(50));
                    let now = start.elapsed().as_millis() as u64;
                    for d in &deadlines {
                        if d.0.load(Ordering::Relaxed) < now {
                            if let Some(pid) = *d.1.lock().unwrap() {
                                unsafe_kill(pid);
                            }
                            d.0.store(u64::MAX, Ordering::Relaxed);
                        }
                    }
                }
            });
        }
        let handles: Vec<_> = (0..threads)
            .map(|t| {
                let slot = deadlines[t].clone();
                scope.spawn(move || {
                    let mut worker = spawn_worker();
                    *slot.1.lock().unwrap() = Some(worker.child.id());
                    while let Some(req) = next() {
                        let line = format!("{}\n", req.to_json());
                        let deadline =
                            start.elapsed().as_millis() as u64 + per_request_timeout.as_millis() as u64;
                        slot.0.store(deadline, Ordering::Relaxed);
                        let write_ok = worker
                            .child
                            .stdin
                            .as_mut()
                            .map(|s| s.write_all(line.as_bytes()).and_then(|_| s.flush()).is_ok())
                            .unwrap_or(false);
                        let mut reply = None;
                        let mut tail = String::new();
                        if write_ok {
                            let mut buf = String::new();
                            loop {
                                buf.clear();
                                match worker.reader.read_line(&mut buf) {
                                    Ok(0) | Err(_) => break,
                                    Ok(_) => {
                                        if let Some(js) = buf.strip_prefix(MARK) {
                                            if let Ok(v) = serde_json::from_str::<Value>(js.trim()) {
                                                reply = Some(Outcome::from_json(&v));
                                                break;
                                            }
                                        } else if buf.trim().len() > 1 {
                                            tail.push_str(&buf);
                                            if tail.len() > 4000 {
                                                tail = tail[tail.len() - 2000..].to_string();
                                            }
                                        }
                                    }
                                }
                            }
                        }
                        let timed_out = start.elapsed().as_millis() as u64 >= deadline;
                        slot.0.store(u64::MAX, Ordering::Relaxed);
                        let outcome = match reply {
                            Some(o) => o,
                            None => {
                                // the worker died (or was killed by the watchdog)
                                let status = worker.child.wait().ok();
                                let o = Outcome {
                                    id: req.id,
                                    status: if timed_out { "timeout".into() } else { "died".into() },
                                    detail: format!(
                                        "{:?} :: {}",
                                        status,
                                        truncate(tail.trim(), 600)
                                    ),
                                    ..Default::default()
                                };
                                *slot.1.lock().unwrap() = None;
                                worker = spawn_worker();
                                *slot.1.lock().unwrap() = Some(worker.child.id());
                                o
                            }
                        };
                        sink(&req, outcome);
                    }
                    drop(worker.child.stdin.take());
                    let _ = worker.child.wait();
                    *slot.1.lock().unwrap() = None;
                })
            })
            .collect();
        for h in handles {
            let _ = h.join();
        }
        done.store(true, Ordering::Relaxed);
    });
}

fn unsafe_kill(pid: u32) {
    let _ = Command::new("kill").args(["-9", &pid.to_string()]).status();
}

/// C25's part: every front-end diagnostic of every corpus snippet (0 deviations) rendered.
pub fn render_sweep(snippets: &[(String, String)], _quick: bool) -> RenderAcc {
    let reqs = crate::front_mc::corpus_requests(snippets);
    let n = reqs.len();
    let queue = Mutex::new(reqs.into_iter());
    let acc = Mutex::new(RenderAcc::default());
    run_pool(
        16,
        Duration::from_secs(20),
        &|| queue.lock().unwrap().next(),
        &|req, out| {
            let mut acc = acc.lock().unwrap();
            acc.inputs += 1;
            for d in &out.diags {
                acc.rendered += 1;
                if d.stage == "syntax" {
                    continue; // covered (and attributed) by the in-process sweep
                }
                if !d.render_problem.is_empty() {
                    let (sig, detail) = d
                        .render_problem
                        .split_once(" :: ")
                        .unwrap_or((&d.render_problem, ""));
                    acc.failures.push(Failure {
                        signature: sig.to_string(),
                        input: req
                            .modules
                            .iter()
                            .map(|(n, t)| format!("#- {n}\n{t}"))
                            .collect::<Vec<_>>()
                            .join("\n"),
                        api: format!("Diagnostic::display({}:{})", d.stage, d.kind),
                        detail: detail.to_string(),
                    });
                } else {
                    let text = &req.modules.iter().find(|(n, _)| *n == d.file).unwrap().1;
                    if (d.start as usize) <= text.len() {
                        let pos = crate::linecol_mc::reference_line_col(text, d.start as usize);
                        if acc.positions.len() < 5000 {
                            acc.positions.insert(pos);
                        }
                    }
                }
            }
        },
    );
    let _ = n;
    acc.into_inner().unwrap()
}

#[allow(dead_code)]
pub fn work_dir(name: &str) -> PathBuf {
    let p = PathBuf::from(format!("{VERIF_DIR}/work/{name}"));
    let _ = std::fs::remove_dir_all(&p);
    std::fs::create_dir_all(&p).unwrap();
    p
}
