//! The type universe shared by C12 (type relations) and C17 (layouts): every primitive, the weak
//! literal types, nil, void, two structurally identical enums with their variants, and up to two
//! nested constructors over them with a small pool of uids.

use hir::common::{MemberTy, Name, ParamTy, Ty};
use internment::Intern;

pub struct Universe {
    pub interner: interner::Interner,
    pub base: Vec<Intern<Ty>>,
    pub depth1: Vec<Intern<Ty>>,
    pub depth2: Vec<Intern<Ty>>,
    pub name_a: Name,
    pub name_b: Name,
    pub enums: Vec<Intern<Ty>>,
}

pub const ISIZE: u8 = u8::MAX;

fn member(name: Name, ty: Intern<Ty>) -> MemberTy {
    MemberTy { name, ty }
}

fn param(ty: Intern<Ty>) -> ParamTy {
    ParamTy {
        ty,
        comptime: None,
        varargs: false,
        impossible_to_differentiate: false,
    }
}

/// the constructors applied at each level. `wide` adds the second array length and two-member
/// aggregates (used at depth 1 only, to keep depth 2 enumerable)
pub fn construct(u: &Universe, t: Intern<Ty>, wide: bool, err_enum: Intern<Ty>) -> Vec<Intern<Ty>> {
    // a uid identifies one declaration, and a declaration has one underlying type: the uid is
    // derived from (slot, underlying type), so that `distinct'a i32` and `distinct'b i32` are two
    // nominal types over the same type but no uid is shared by two different types
    let uid = |slot: u32| -> u32 {
        (crate::common::fxhash(&format!("{slot}|{t:?}")) as u32 & 0x0fff_fff0) | slot | 0x1000_0000
    };
    let i32_ty: Intern<Ty> = Ty::IInt(32).into();
    let void: Intern<Ty> = Ty::Void.into();
    let mut v: Vec<Ty> = vec![
        Ty::ConcreteArray { size: 2, sub_ty: t },
        Ty::AnonArray { size: 2, sub_ty: t },
        Ty::Slice { sub_ty: t },
        Ty::Pointer { mutable: false, sub_ty: t },
        Ty::Pointer { mutable: true, sub_ty: t },
        Ty::Optional { sub_ty: t },
        Ty::Distinct { uid: uid(0), sub_ty: t },
        Ty::Distinct { uid: uid(1), sub_ty: t },
        Ty::ConcreteStruct { uid: uid(0), members: vec![member(u.name_a, t)] },
        Ty::ConcreteStruct { uid: uid(1), members: vec![member(u.name_a, t)] },
        Ty::AnonStruct { members: vec![member(u.name_a, t)] },
        Ty::ErrorUnion { error_ty: err_enum, payload_ty: t },
        Ty::FunctionPointer { param_tys: vec![param(t)], return_ty: void },
        Ty::FunctionPointer { param_tys: vec![], return_ty: t },
    ];
    if wide {
        v.push(Ty::ConcreteArray { size: 3, sub_ty: t });
        v.push(Ty::ConcreteArray { size: 0, sub_ty: t });
        v.push(Ty::ConcreteStruct {
            uid: uid(2),
            members: vec![member(u.name_a, t), member(u.name_b, i32_ty)],
        });
        v.push(Ty::ConcreteStruct {
            uid: uid(3),
            members: vec![member(u.name_b, i32_ty), member(u.name_a, t)],
        });
        v.push(Ty::AnonStruct {
            members: vec![member(u.name_a, t), member(u.name_b, i32_ty)],
        });
        v.push(Ty::ErrorUnion { error_ty: t, payload_ty: i32_ty });
    }
    v.into_iter().map(Intern::new).collect()
}

/// builds (and registers with the thread-local ENUM_MAP of the *calling* thread) the two enums
pub fn make_enums(name_a: Name, name_b: Name) -> Vec<Intern<Ty>> {
    let mut res = Vec::new();
    for enum_uid in 0..2u32 {
        let variants: Vec<Intern<Ty>> = vec![
            Ty::EnumVariant {
                enum_uid,
                variant_name: name_a,
                uid: 10 + enum_uid * 2,
                sub_ty: Ty::IInt(32).into(),
                discriminant: 0,
            }
            .into(),
            Ty::EnumVariant {
                enum_uid,
                variant_name: name_b,
                uid: 11 + enum_uid * 2,
                sub_ty: Ty::Void.into(),
                discriminant: 1,
            }
            .into(),
        ];
        let e: Intern<Ty> = Ty::Enum { uid: enum_uid, variants }.into();
        res.push(e);
    }
    res
}

pub fn register_enums(enums: &[Intern<Ty>]) {
    hir::common::ENUM_MAP.with(|m| {
        let mut m = m.borrow_mut();
        for e in enums {
            if let Ty::Enum { uid, .. } = e.as_ref() {
                m.insert(*uid, *e);
            }
        }
    });
}

impl Universe {
    pub fn new(depth2: bool) -> Universe {
        let mut interner = interner::Interner::default();
        let name_a = Name(interner.intern("a"));
        let name_b = Name(interner.intern("b"));
        let mut base: Vec<Ty> = Vec::new();
        for w in [8u8, 16, 32, 64, 128, ISIZE, 0] {
            base.push(Ty::IInt(w));
            base.push(Ty::UInt(w));
        }
        for w in [32u8, 64, 0] {
            base.push(Ty::Float(w));
        }
        base.extend([
            Ty::Bool,
            Ty::String,
            Ty::Char,
            Ty::Type,
            Ty::Any,
            Ty::RawPtr { mutable: false },
            Ty::RawPtr { mutable: true },
            Ty::RawSlice,
            Ty::Void,
            Ty::Nil,
        ]);
        let mut base: Vec<Intern<Ty>> = base.into_iter().map(Intern::new).collect();
        let enums = make_enums(name_a, name_b);
        register_enums(&enums);
        for e in &enums {
            base.push(*e);
            if let Ty::Enum { variants, .. } = e.as_ref() {
                base.extend(variants.iter().copied());
            }
        }
        let mut u = Universe {
            interner,
            base: base.clone(),
            depth1: Vec::new(),
            depth2: Vec::new(),
            name_a,
            name_b,
            enums: enums.clone(),
        };
        let mut d1 = base.clone();
        for t in &base {
            d1.extend(construct(&u, *t, true, enums[0]));
        }
        d1.sort_by_key(|t| format!("{t:?}"));
        d1.dedup();
        u.depth1 = d1.clone();
        if depth2 {
            let mut d2 = d1.clone();
            for t in &d1 {
                d2.extend(construct(&u, *t, false, enums[0]));
            }
            d2.sort_by_key(|t| format!("{t:?}"));
            d2.dedup();
            u.depth2 = d2;
        }
        u
    }

    pub fn show(&self, t: &Ty) -> String {
        format!("{}", t.debug(&self.interner, true))
    }
}
