//! C26 – inference scheduling offers exactly the ready work and detects true cycles.
//!
//! Explicit-state model checking (stateright, BFS) of a model whose state *contains the real*
//! `topo::TopoSort<u8>` next to a ghost reference scheduler. Every transition calls the real
//! API; the `always` property compares the real answers with the ghost in every state.
//!
//! Binding to the checker: the scheduling traces that `InferenceCtx::finish` really produces
//! (hook H3) for every corpus program are replayed through the *same* transition function and
//! oracle, and every recorded operation must be an action of the model's alphabet.

use std::collections::{BTreeMap, BTreeSet};
use std::hash::{Hash, Hasher};
use std::sync::Mutex;
use std::time::Duration;

use serde_json::json;
use stateright::{Checker, HasDiscoveries, Model, Property};
use topo::TopoSort;

use crate::common::*;

#[derive(Clone, Debug)]
pub struct St {
    pub real: TopoSort<u32>,
    /// ghost: items registered and not completed
    pub pending: BTreeSet<u32>,
    pub completed: BTreeSet<u32>,
    /// ghost: registered dependencies
    pub deps: BTreeMap<u32, BTreeSet<u32>>,
    /// items of the current round still to process
    pub queue: Vec<u32>,
    pub cyclic_round: bool,
    pub round: u32,
    pub cycle_rounds_seen: u32,
    pub violation: Option<String>,
    key: String,
}

impl St {
    fn rekey(&mut self) {
        self.key = format!(
            "{:?}|{:?}|{:?}|{:?}|{:?}|{}|{}|{}|{:?}",
            self.real,
            self.pending,
            self.completed,
            self.deps,
            self.queue,
            self.cyclic_round,
            self.round,
            self.cycle_rounds_seen.min(1),
            self.violation
        );
    }

    pub fn initial(items: &[u32]) -> St {
        let mut real = TopoSort::new();
        real.extend(items.iter().copied());
        let mut s = St {
            real,
            pending: items.iter().copied().collect(),
            completed: BTreeSet::new(),
            deps: BTreeMap::new(),
            queue: Vec::new(),
            cyclic_round: false,
            round: 0,
            cycle_rounds_seen: 0,
            violation: None,
            key: String::new(),
        };
        s.rekey();
        s
    }

    pub fn ready(&self) -> BTreeSet<u32> {
        self.pending
            .iter()
            .copied()
            .filter(|p| {
                self.deps
                    .get(p)
                    .is_none_or(|d| d.iter().all(|x| !self.pending.contains(x)))
            })
            .collect()
    }

    /// what `finish` does at the top of its loop; compares every answer with the ghost
    pub fn start_round(&mut self) {
        let ready = self.ready();
        let mut problems = Vec::new();
        if self.real.is_empty() != self.pending.is_empty() {
            problems.push(format!(
                "is_empty() = {} but {} items are pending",
                self.real.is_empty(),
                self.pending.len()
            ));
        }
        if self.real.len() != self.pending.len() {
            problems.push(format!("len() = {} but {} items are pending", self.real.len(), self.pending.len()));
        }
        let in_cycle = self.real.in_cycle();
        match self.real.peek_all() {
            Ok(list) => {
                let offered: Vec<u32> = list.into_iter().copied().collect();
                let set: BTreeSet<u32> = offered.iter().copied().collect();
                if set.len() != offered.len() {
                    problems.push(format!("peek_all offers an item twice: {offered:?}"));
                }
                if set != ready {
                    problems.push(format!("peek_all offers {set:?} but the ready items are {ready:?}"));
                }
                if let Some(c) = offered.iter().find(|i| self.completed.contains(i)) {
                    problems.push(format!("completed item {c} offered again"));
                }
                if in_cycle || self.real.peek_all_cyclic().is_some() {
                    problems.push("in_cycle/peek_all_cyclic claim a cycle although items are ready".into());
                }
                self.queue = offered;
                self.cyclic_round = false;
            }
            Err(_) => {
                if !ready.is_empty() || self.pending.is_empty() {
                    problems.push(format!(
                        "cycle reported although {ready:?} are ready ({} pending)",
                        self.pending.len()
                    ));
                }
                if !in_cycle {
                    problems.push("peek_all reports a cycle but in_cycle() is false".into());
                }
                match self.real.peek_all_cyclic() {
                    Some(all) => {
                        let set: BTreeSet<u32> = all.iter().map(|x| **x).collect();
                        if set != self.pending || all.len() != set.len() {
                            problems.push(format!(
                                "peek_all_cyclic = {all:?} but the pending items are {:?}",
                                self.pending
                            ));
                        }
                        self.queue = all.into_iter().copied().collect();
                    }
                    None => {
                        problems.push("peek_all reports a cycle but peek_all_cyclic is None".into());
                        self.queue = Vec::new();
                    }
                }
                self.cyclic_round = true;
                self.cycle_rounds_seen += 1;
            }
        }
        self.round += 1;
        if !problems.is_empty() && self.violation.is_none() {
            self.violation = Some(problems.join("; "));
        }
    }

    pub fn done(&mut self, item: u32) {
        self.queue.retain(|x| *x != item);
        let existed = self.real.remove(&item);
        if !existed && self.violation.is_none() {
            self.violation = Some(format!("remove({item}) says the offered item did not exist"));
        }
        self.pending.remove(&item);
        self.completed.insert(item);
        self.deps.remove(&item);
    }

    pub fn add_deps(&mut self, item: u32, deps: &[u32]) {
        self.queue.retain(|x| *x != item);
        self.real.insert_deps(item, deps.iter().copied());
        for d in deps {
            self.deps.entry(item).or_default().insert(*d);
            self.pending.insert(*d);
            // a completed item that is asked for again is pending again
            self.completed.remove(d);
        }
    }
}

impl PartialEq for St {
    fn eq(&self, other: &Self) -> bool {
        self.key == other.key
    }
}
impl Eq for St {}
impl Hash for St {
    fn hash<H: Hasher>(&self, state: &mut H) {
        self.key.hash(state)
    }
}

#[derive(Clone, Debug, PartialEq, Eq, Hash)]
pub enum Act {
    StartRound,
    Done(u32),
    Deps(u32, Vec<u32>),
}

pub struct TopoModel {
    pub items: u32,
    pub max_rounds: u32,
    /// whether an item may register a dependency on itself (decided by what H3 traces show)
    pub self_deps: bool,
}

impl Model for TopoModel {
    type State = St;
    type Action = Act;

    fn init_states(&self) -> Vec<St> {
        // extend(S) for every non-empty subset S of the items, in ascending order
        // (finish() seeds in sorted order)
        (1u32..(1 << self.items))
            .map(|mask| {
                let items: Vec<u32> = (0..self.items).filter(|i| mask & (1 << i) != 0).collect();
                St::initial(&items)
            })
            .collect()
    }

    fn actions(&self, s: &St, actions: &mut Vec<Act>) {
        if s.violation.is_some() {
            return;
        }
        if s.queue.is_empty() {
            if !s.pending.is_empty() && s.round < self.max_rounds {
                actions.push(Act::StartRound);
            }
            return;
        }
        // a normal round processes the offered items in the returned order; a cycle-breaking
        // round is re-sorted by source location, which is unrelated to insertion order: any order
        let candidates: Vec<u32> = if s.cyclic_round {
            s.queue.clone()
        } else {
            vec![s.queue[0]]
        };
        for item in candidates {
            actions.push(Act::Done(item));
            let targets: Vec<u32> = (0..self.items)
                .filter(|d| !s.completed.contains(d) && (self.self_deps || *d != item))
                .collect();
            for mask in 1u32..(1 << targets.len()) {
                let deps: Vec<u32> = targets
                    .iter()
                    .enumerate()
                    .filter(|(i, _)| mask & (1 << i) != 0)
                    .map(|(_, d)| *d)
                    .collect();
                actions.push(Act::Deps(item, deps));
            }
        }
    }

    fn next_state(&self, last: &St, action: Act) -> Option<St> {
        let mut s = last.clone();
        let res = catch(|| {
            match &action {
                Act::StartRound => s.start_round(),
                Act::Done(i) => s.done(*i),
                Act::Deps(i, d) => s.add_deps(*i, d),
            }
            s
        });
        let mut s = match res {
            Ok(s) => s,
            Err(p) => {
                let mut s = last.clone();
                s.violation = Some(format!("panic in {action:?}: {} at {}", p.message, p.location));
                s.queue.clear();
                s
            }
        };
        s.rekey();
        Some(s)
    }

    fn properties(&self) -> Vec<Property<Self>> {
        vec![
            Property::always("real scheduler agrees with the reference in every state", |_, s: &St| {
                s.violation.is_none()
            }),
            Property::sometimes("a cycle-breaking round is reached", |_, s: &St| s.cycle_rounds_seen > 0),
            Property::sometimes("a schedule that registered dependencies drains completely", |m: &TopoModel, s: &St| {
                s.pending.is_empty() && s.completed.len() as u32 == m.items && s.round >= 3
            }),
        ]
    }
}

fn run_model(items: u32, rounds: u32, self_deps: bool, cap: usize) -> (usize, usize, usize, Option<String>, bool, Vec<&'static str>) {
    let model = TopoModel {
        items,
        max_rounds: rounds,
        self_deps,
    };
    let checker = model
        .checker()
        .threads(16)
        .finish_when(HasDiscoveries::AnyFailures)
        .target_state_count(cap)
        .spawn_bfs()
        .join();
    let unique = checker.unique_state_count();
    let total = checker.state_count();
    let depth = checker.max_depth();
    let capped = unique >= cap;
    let mut violation = None;
    let mut found = Vec::new();
    for (name, path) in checker.discoveries() {
        if name.starts_with("real scheduler") {
            let last = path.last_state().clone();
            let actions: Vec<String> = path.into_actions().into_iter().map(|a| format!("{a:?}")).collect();
            violation = Some(format!(
                "{} ## after {}",
                last.violation.unwrap_or_default(),
                actions.join(" ; ")
            ));
        } else {
            found.push(name);
        }
    }
    (unique, total, depth, violation, capped, found)
}

// ---------------------------------------------------------------------------------------------
// conformance: replay of the real `finish` traces

#[derive(Default)]
struct Conf {
    traces: u64,
    ops: u64,
    rounds: u64,
    cyclic_rounds: u64,
    max_items: usize,
    self_deps_seen: u64,
    deps_on_completed: u64,
    failures: Failures,
    samples: Vec<String>,
}

fn parse_list(s: &str) -> Vec<String> {
    // a JSON-ish debug list of quoted strings: ["..", ".."]
    let mut res = Vec::new();
    let mut cur = String::new();
    let mut in_str = false;
    let mut esc = false;
    for c in s.chars() {
        if in_str {
            if esc {
                cur.push(c);
                esc = false;
            } else if c == '\\' {
                esc = true;
            } else if c == '"' {
                in_str = false;
                res.push(std::mem::take(&mut cur));
            } else {
                cur.push(c);
            }
        } else if c == '"' {
            in_str = true;
        }
    }
    res
}

/// replays one recorded trace on the real TopoSort + ghost with the model's own transition
/// functions. Returns Err(description) if the trace leaves the model's alphabet or the oracle fails.
fn replay_trace(trace: &[String], conf: &mut Conf) -> Result<(), (String, String)> {
    let mut ids: BTreeMap<String, u32> = BTreeMap::new();
    let mut id_of = |name: &str, ids: &mut BTreeMap<String, u32>| -> u32 {
        let n = ids.len() as u32;
        *ids.entry(name.to_string()).or_insert(n)
    };
    let mut st: Option<St> = None;
    let mut offered_now: Vec<u32> = Vec::new();
    for op in trace {
        conf.ops += 1;
        if let Some(rest) = op.strip_prefix("Extend(") {
            let items: Vec<u32> = parse_list(rest).iter().map(|n| id_of(n, &mut ids)).collect();
            st = Some(St::initial(&items));
        } else if let Some(rest) = op.strip_prefix("Round {") {
            let s = st.as_mut().ok_or(("alphabet:round-before-extend".to_string(), op.clone()))?;
            if !s.queue.is_empty() {
                return Err((
                    "alphabet:round-started-with-unprocessed-items".into(),
                    format!("{:?} were offered and not processed", s.queue),
                ));
            }
            let cyclic = rest.contains("cyclic: true");
            let offered: Vec<u32> = parse_list(rest).iter().map(|n| id_of(n, &mut ids)).collect();
            s.start_round();
            conf.rounds += 1;
            if cyclic {
                conf.cyclic_rounds += 1;
            }
            if let Some(v) = &s.violation {
                return Err(("oracle".into(), v.clone()));
            }
            if s.cyclic_round != cyclic {
                return Err(("conformance:cyclic-flag-differs".into(), op.clone()));
            }
            let mut a = offered.clone();
            let mut b = s.queue.clone();
            if cyclic {
                a.sort();
                b.sort();
            }
            if a != b {
                return Err((
                    "conformance:offered-items-differ".into(),
                    format!("finish processes {offered:?}, the replayed TopoSort offers {:?}", s.queue),
                ));
            }
            offered_now = offered;
        } else if let Some(rest) = op.strip_prefix("Done(") {
            let s = st.as_mut().ok_or(("alphabet:op-before-extend".to_string(), op.clone()))?;
            let item = id_of(&parse_list(rest)[0], &mut ids);
            if !s.queue.contains(&item) {
                return Err(("alphabet:done-of-unoffered-item".into(), op.clone()));
            }
            if !s.cyclic_round && s.queue[0] != item {
                return Err(("alphabet:processed-out-of-order".into(), op.clone()));
            }
            s.done(item);
            if let Some(v) = &s.violation {
                return Err(("oracle".into(), v.clone()));
            }
        } else if let Some(rest) = op.strip_prefix("Deps(") {
            let s = st.as_mut().ok_or(("alphabet:op-before-extend".to_string(), op.clone()))?;
            let names = parse_list(rest);
            let item = id_of(&names[0], &mut ids);
            let deps: Vec<u32> = names[1..].iter().map(|n| id_of(n, &mut ids)).collect();
            if !s.queue.contains(&item) {
                return Err(("alphabet:deps-of-unoffered-item".into(), op.clone()));
            }
            if !s.cyclic_round && s.queue[0] != item {
                return Err(("alphabet:processed-out-of-order".into(), op.clone()));
            }
            if deps.is_empty() {
                return Err(("alphabet:empty-deps".into(), op.clone()));
            }
            if deps.contains(&item) {
                conf.self_deps_seen += 1;
            }
            if deps.iter().any(|d| s.completed.contains(d)) {
                // the type checker asks for an item that has already completed once: that re-registers it as pending (it is
                // offered and completed again).  The breadth-first model does not generate this event; the replay checks it
                // against the ghost scheduler directly (every later step is still compared with the real TopoSort's answers)
                conf.deps_on_completed += 1;
            }
            s.add_deps(item, &deps);
        }
    }
    let _ = offered_now;
    if let Some(s) = &st {
        conf.max_items = conf.max_items.max(ids.len());
        if !s.pending.is_empty() || !s.real.is_empty() {
            return Err((
                "conformance:finish-returned-with-pending-items".into(),
                format!("{:?}", s.pending),
            ));
        }
    }
    Ok(())
}

fn conformance(quick: bool) -> Conf {
    let snippets = crate::corpus::snippets();
    let mut reqs = crate::front_mc::corpus_requests(&snippets);
    // plus: single-token edits of the small snippets (they produce cycles and re-registrations)
    if !quick {
        let core = crate::front_mc::core_modules();
        let mut id = reqs.len() as u64;
        for (origin, text) in &snippets {
            if text.len() > 600 || text.contains("#mod") || origin.ends_with(".test") || origin.starts_with("/repo/core") {
                continue;
            }
            crate::parse_mc::edits_of(text, &crate::parse_mc::REPLACEMENTS[..2], &mut |t| {
                id += 1;
                reqs.push(crate::front_mc::request_for(id, t, &core, false));
            });
        }
    }
    for r in &mut reqs {
        r.sched = true;
        r.codegen = false;
    }
    let queue = Mutex::new(reqs.into_iter());
    let conf = Mutex::new(Conf::default());
    crate::front::run_pool(
        16,
        Duration::from_secs(30),
        &|| queue.lock().unwrap().next(),
        &|req, out| {
            if out.sched.is_empty() {
                return;
            }
            let mut conf = conf.lock().unwrap();
            conf.traces += 1;
            if let Err((sig, detail)) = replay_trace(&out.sched, &mut conf) {
                conf.failures.push(Failure {
                    signature: sig,
                    input: req
                        .modules
                        .iter()
                        .filter(|(n, _)| !n.starts_with("core/"))
                        .take(3)
                        .map(|(n, t)| format!("#- {n}\n{t}"))
                        .collect::<Vec<_>>()
                        .join("\n"),
                    api: "InferenceCtx::finish trace replay".into(),
                    detail,
                });
            } else if conf.samples.len() < 2 && out.sched.len() > 4 && out.sched.len() < 14 {
                let short: Vec<String> = out
                    .sched
                    .iter()
                    .map(|op| {
                        // abbreviate the long Debug names
                        let mut s = op.clone();
                        for (i, name) in parse_list(op).iter().enumerate() {
                            s = s.replace(&format!("{name:?}"), &format!("#{i}"));
                        }
                        truncate(&s, 60)
                    })
                    .collect();
                conf.samples.push(short.join(" ; "));
            }
        },
    );
    conf.into_inner().unwrap()
}

pub fn run(args: &Args) -> ! {
    let mut report = Report::new("C26", args);
    let quick = args.tier == Tier::Quick;

    // 1. what does the checker really do? (decides the alphabet's self-dependency switch)
    let conf = conformance(quick);
    if conf.failures.total() == 0 && conf.traces < 100 {
        machinery_failure(&format!("only {} scheduling traces were recorded", conf.traces));
    }
    let self_deps = conf.self_deps_seen > 0;

    // 2. explicit-state exploration
    let configs: &[(u32, u32)] = if quick { &[(3, 6), (4, 3)] } else { &[(3, 8), (4, 6)] };
    let cap = 150_000_000;
    let mut states = 0usize;
    let mut transitions = 0usize;
    let mut runs = Vec::new();
    let mut exhaustive = true;
    let mut failures = conf.failures.clone();
    for &(items, rounds) in configs {
        let (unique, total, depth, violation, capped, found) = run_model(items, rounds, self_deps, cap);
        // determinism self-test: the same exploration twice gives the same count
        if items == 3 {
            let (unique2, ..) = run_model(items, rounds, self_deps, cap);
            if unique2 != unique && violation.is_none() {
                machinery_failure(&format!("nondeterministic exploration: {unique} vs {unique2} states"));
            }
        }
        states += unique;
        transitions += total;
        exhaustive &= !capped;
        runs.push(json!({"items": items, "rounds": rounds, "unique_states": unique, "transitions": total,
            "max_depth": depth, "cap_hit": capped, "witnesses_found": found}));
        if let Some(v) = violation {
            let (what, hist) = v.split_once(" ## after ").unwrap_or((&v, ""));
            failures.push(Failure {
                signature: "scheduler-disagrees-with-reference".into(),
                input: hist.to_string(),
                api: format!("TopoSort ({items} items, {rounds} rounds)"),
                detail: what.to_string(),
            });
        } else if found.len() < 2 && !capped {
            machinery_failure(&format!(
                "vacuous exploration for {items} items x {rounds} rounds: witnesses found = {found:?}"
            ));
        }
    }

    report.set("states", states);
    report.set("transitions", transitions);
    report.set("traces_validated_against_impl", conf.traces);
    report.set("exhaustive", exhaustive);
    report.set("model_runs", runs);
    report.set("self_dependencies_in_alphabet", self_deps);
    report.set(
        "conformance",
        json!({"finish_traces_replayed": conf.traces, "operations": conf.ops, "rounds": conf.rounds,
               "cycle_breaking_rounds": conf.cyclic_rounds, "max_items_in_a_trace": conf.max_items,
               "self_dependencies_seen": conf.self_deps_seen}),
    );
    report.set("distinct_outcomes", states);
    let mut samples = vec![
        json!("extend{0,1} ; StartRound ; Deps(0,[1]) ; Done(1) ; StartRound ; Done(0)"),
    ];
    samples.extend(conf.samples.iter().map(|s| json!(s)));
    report.set("samples", samples);
    report.set(
        "rule",
        "states = unique (real TopoSort internal state, ghost scheduler, round queue) states explored by stateright BFS; \
         transitions = states generated including repeats; every transition calls the real TopoSort API; \
         traces = scheduling histories recorded from the real InferenceCtx::finish (hook H3) and replayed through the same transition function and oracle",
    );
    report.assumptions = vec![
        "usage protocol as in the property: an offered item completes or registers a non-empty set of dependencies on not-yet-completed items; the recorded traces of the real checker are checked to stay inside it".into(),
        "cycle-breaking rounds are explored in every processing order because finish() re-sorts them by source location".into(),
    ];
    report.failures = failures;
    report.finish()
}
