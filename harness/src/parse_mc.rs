//! C23 – parsing is total, terminating and lossless.
//!
//! Exhaustive enumeration of every sequence of <= k token spellings (full alphabet and a reduced
//! one to a larger k), every corpus snippet with every single-token edit, and pump families for
//! nesting depth; each through the real lexer and both real parser entry points, with the parser
//! fuel hook (H2) turning non-termination into a deterministic, attributable failure.

use std::collections::BTreeSet;

use serde_json::json;
use syntax::{SyntaxElement, SyntaxNode, SyntaxTree};

use crate::common::*;

#[derive(Clone, Copy, PartialEq, Eq, Debug)]
pub enum Entry {
    SourceFile,
    ReplLine,
}

impl Entry {
    pub fn name(self) -> &'static str {
        match self {
            Entry::SourceFile => "parse_source_file",
            Entry::ReplLine => "parse_repl_line",
        }
    }
}

/// fuel: generous linear bound. calibrated on the corpus: the largest observed ratio is reported
/// in the evidence (`max_steps_per_token`); the fuel allows 40x more than the budget the
/// corpus needs.
pub const FUEL_BASE: u64 = 4_000;
pub const FUEL_PER_TOKEN: u64 = 2_000;

#[derive(Default)]
pub struct ParseAcc {
    pub inputs: u64,
    pub parses: u64,
    pub steps: u64,
    pub errors_seen: u64,
    pub with_errors: u64,
    pub max_ratio_milli: u64,
    pub max_ratio_input: String,
    pub outcomes: BTreeSet<u64>,
    pub failures: Failures,
    pub samples: Vec<String>,
}

impl Acc for ParseAcc {
    fn merge(&mut self, o: Self) {
        self.inputs += o.inputs;
        self.parses += o.parses;
        self.steps += o.steps;
        self.errors_seen += o.errors_seen;
        self.with_errors += o.with_errors;
        if o.max_ratio_milli > self.max_ratio_milli {
            self.max_ratio_milli = o.max_ratio_milli;
            self.max_ratio_input = o.max_ratio_input;
        }
        if self.outcomes.len() < 3_000_000 {
            self.outcomes.extend(o.outcomes);
        }
        self.failures.merge(o.failures);
        if self.samples.len() < 6 {
            self.samples.extend(o.samples.into_iter().take(2));
        }
    }
}

fn check_tree(tree: &SyntaxTree, input: &str) -> Result<u64, (String, String)> {
    let root = tree.root();
    if root.text(tree) != input {
        return Err((
            "tree-text-differs".into(),
            format!("root text {:?}", truncate(root.text(tree), 60)),
        ));
    }
    let rr = root.range(tree);
    if u32::from(rr.start()) != 0 || usize::from(rr.end()) != input.len() {
        return Err(("root-range-differs".into(), format!("{rr:?}")));
    }
    // leaves tile the input, nodes nest (iterative: trees can be tens of thousands deep)
    let mut leaf_text = String::with_capacity(input.len());
    let mut shape = 0u64;
    // pre-order walk with an explicit stack; children are pushed in reverse so they pop in order
    enum Item {
        Node(SyntaxNode, u32),
        Token(syntax::SyntaxToken),
    }
    let mut work: Vec<Item> = vec![Item::Node(root, 0)];
    while let Some(item) = work.pop() {
        match item {
            Item::Token(t) => {
                shape = shape
                    .wrapping_mul(1099511628211)
                    .wrapping_add(t.kind(tree) as u64 + 1);
                leaf_text.push_str(t.text(tree));
            }
            Item::Node(node, depth) => {
                let r = node.range(tree);
                shape = shape
                    .wrapping_mul(1099511628211)
                    .wrapping_add(node.kind(tree) as u64 + 1000 + (depth as u64 % 64) * 7);
                let mut pos = r.start();
                let children: Vec<_> = node.children(tree).collect();
                for child in &children {
                    let cr = match child {
                        SyntaxElement::Node(n) => n.range(tree),
                        SyntaxElement::Token(t) => t.range(tree),
                    };
                    if cr.start() < pos || cr.end() > r.end() || cr.start() > cr.end() {
                        return Err((
                            "node-ranges-not-nested".into(),
                            format!(
                                "child {cr:?} of {:?}@{r:?} (previous sibling ended at {pos:?})",
                                node.kind(tree)
                            ),
                        ));
                    }
                    pos = cr.end();
                }
                for child in children.into_iter().rev() {
                    work.push(match child {
                        SyntaxElement::Node(n) => Item::Node(n, depth + 1),
                        SyntaxElement::Token(t) => Item::Token(t),
                    });
                }
            }
        }
    }
    if leaf_text != input {
        return Err((
            "leaf-texts-differ-from-input".into(),
            format!("leaves spell {:?}", truncate(&leaf_text, 60)),
        ));
    }
    Ok(shape)
}

/// parse one input through one entry point, check every invariant
pub fn check_parse(text: &str, entry: Entry, acc: &mut ParseAcc) {
    let fail = |acc: &mut ParseAcc, sig: String, detail: String| {
        acc.failures.push(Failure {
            signature: sig,
            input: text.to_string(),
            api: entry.name().into(),
            detail,
        });
    };
    let tokens = match catch(|| lexer::lex(text)) {
        Ok(t) => t,
        Err(_) => return, // a lexer panic is C22's finding
    };
    let ntok = tokens.len() as u64;
    let fuel = FUEL_BASE + FUEL_PER_TOKEN * ntok;
    parser::verif::set_fuel(Some(fuel));
    let res = catch(|| match entry {
        Entry::SourceFile => parser::parse_source_file(&tokens, text),
        Entry::ReplLine => parser::parse_repl_line(&tokens, text),
    });
    let steps = parser::verif::steps();
    parser::verif::set_fuel(None);
    acc.parses += 1;
    acc.steps += steps;
    let parse = match res {
        Ok(p) => p,
        Err(p) => {
            if p.message == parser::verif::FUEL_EXHAUSTED_MSG {
                fail(
                    acc,
                    "hang(fuel-exhausted)".into(),
                    format!("more than {fuel} parser steps for {ntok} tokens"),
                );
            } else {
                fail(acc, panic_class(&p), format!("{} at {}", p.message, p.location));
            }
            return;
        }
    };
    let ratio = steps * 1000 / (ntok + 1);
    if ratio > acc.max_ratio_milli {
        acc.max_ratio_milli = ratio;
        acc.max_ratio_input = truncate(text, 60);
    }

    let shape = match catch(|| check_tree(parse.syntax_tree(), text)) {
        Ok(Ok(shape)) => shape,
        Ok(Err((sig, detail))) => {
            fail(acc, sig, detail);
            return;
        }
        Err(p) => {
            fail(acc, format!("tree-walk-{}", panic_class(&p)), p.message);
            return;
        }
    };

    let len = text.len() as u32;
    let mut ehash = shape;
    for e in parse.errors() {
        acc.errors_seen += 1;
        let (s, en) = match e.kind {
            parser::SyntaxErrorKind::Missing { offset } => (u32::from(offset), u32::from(offset)),
            parser::SyntaxErrorKind::UnexpectedToken { range, .. }
            | parser::SyntaxErrorKind::UnexpectedNode { range, .. } => {
                (u32::from(range.start()), u32::from(range.end()))
            }
        };
        if s > en || en > len {
            fail(
                acc,
                "error-location-outside-input".into(),
                format!("{e:?} but the input has {len} bytes"),
            );
            return;
        }
        if !text.is_char_boundary(s as usize) || !text.is_char_boundary(en as usize) {
            fail(acc, "error-location-not-on-char-boundary".into(), format!("{e:?}"));
            return;
        }
        ehash = ehash.wrapping_mul(31).wrapping_add(s as u64 * 131 + en as u64);
    }
    if !parse.errors().is_empty() {
        acc.with_errors += 1;
    }
    if acc.outcomes.len() < 200_000 {
        acc.outcomes.insert(ehash);
    }
    if acc.samples.len() < 2 && ntok >= 4 && parse.errors().is_empty() {
        acc.samples.push(format!("{}({text:?}) -> {} tokens, {} steps, 0 errors", entry.name(), ntok, steps));
    }
}

pub const FULL: &[&str] = &[
    "a", "1", "1.5", "\"s\"", "'c'", "if ", "else ", "while ", "loop ", "switch ", "in ",
    "distinct ", "mut ", "extern ", "struct ", "enum ", "comptime ", "return ", "break ",
    "continue ", "defer ", "as ", "+", "-", "*", "<", "!", "&&", "||", "=", "==", ",", ".", "...", "?",
    "->", "=>", "^", "`", "(", ")", "[", "]", "{", "}", ":", ";", "#", " ", "\n", "//c\n",
];

pub const REDUCED: &[&str] = &[
    "a", "1", ".", "(", ")", "{", "}", "[", "]", ":", ",", ";", " ", "=", "->", "struct ",
];

pub fn both(acc: &mut ParseAcc, text: &str) {
    acc.inputs += 1;
    check_parse(text, Entry::SourceFile, acc);
    check_parse(text, Entry::ReplLine, acc);
}

/// every single-token edit of a snippet
pub fn edits_of(text: &str, replacements: &[&str], f: &mut dyn FnMut(&str)) {
    let Ok(tokens) = catch(|| lexer::lex(text)) else {
        return;
    };
    let n = tokens.len();
    let piece = |i: usize| {
        let r = tokens.range(i);
        &text[usize::from(r.start())..usize::from(r.end())]
    };
    let mut buf = String::with_capacity(text.len() + 16);
    for i in 0..n {
        let r = tokens.range(i);
        let (s, e) = (usize::from(r.start()), usize::from(r.end()));
        if tokens.kind(i) == syntax::TokenKind::Whitespace {
            continue;
        }
        // deletion
        buf.clear();
        buf.push_str(&text[..s]);
        buf.push_str(&text[e..]);
        f(&buf);
        // duplication
        buf.clear();
        buf.push_str(&text[..e]);
        buf.push(' ');
        buf.push_str(piece(i));
        buf.push_str(&text[e..]);
        f(&buf);
        // swap with the next non-whitespace token
        if let Some(j) = (i + 1..n).find(|&j| tokens.kind(j) != syntax::TokenKind::Whitespace) {
            let rj = tokens.range(j);
            let (sj, ej) = (usize::from(rj.start()), usize::from(rj.end()));
            buf.clear();
            buf.push_str(&text[..s]);
            buf.push_str(piece(j));
            buf.push_str(&text[e..sj]);
            buf.push_str(piece(i));
            buf.push_str(&text[ej..]);
            f(&buf);
        }
        for rep in replacements {
            buf.clear();
            buf.push_str(&text[..s]);
            buf.push_str(rep);
            buf.push_str(&text[e..]);
            f(&buf);
        }
    }
}

pub const REPLACEMENTS: &[&str] = &[
    "(", ")", "{", "}", ".", ";", "[", "]", ",", ":", "=", "a", "1", "\"s\"", "if ", "struct ",
    "comptime ", "^", "->", "=>", "`", "#", "switch ", "defer ",
];

pub const PUMPS: &[(&str, &str, &str, &str)] = &[
    // (name, opener repeated n times, middle, closer repeated n times)
    ("paren", "(", "a", ")"),
    ("block", "{", "a", "}"),
    ("array-index", "a[", "1", "]"),
    ("array-lit", ".[", "1", "]"),
    ("array-ty", "[1]", "i32", ""),
    ("neg", "-", "a", ""),
    ("ref", "^", "a", ""),
    ("refmut", "^mut ", "a", ""),
    ("call", "f(", "a", ")"),
    ("field", "a.", "b", ""),
    ("deref", "a", "", ".^"),
    ("try", "a", "", ".try"),
    ("binary-left", "a + ", "a", ""),
    ("binary-paren", "(a + ", "a", ")"),
    ("if", "if a {", "b", "}"),
    ("if-else", "if a { b } else ", "{ c }", ""),
    ("while", "while a {", "b", "}"),
    ("loop", "loop {", "b", "}"),
    ("lambda", "() {", "a", "}"),
    ("struct-lit", ".{ a = ", "1", "}"),
    ("struct-decl", "struct { a: ", "i32", "}"),
    ("enum-decl", "enum { A: ", "i32", "}"),
    ("comptime", "comptime {", "a", "}"),
    ("optional", "?", "i32", ""),
    ("cast", "i32.(", "a", ")"),
    ("label", "`l: {", "a", "}"),
    ("switch", "switch a in a { b => ", "c", "}"),
    ("distinct", "distinct ", "i32", ""),
    ("unclosed-paren", "(", "", ""),
    ("unclosed-brace", "{", "", ""),
    ("unclosed-brack", "[", "", ""),
    ("unopened", "", "a", ")"),
    ("dots", ".", "", ""),
    ("colons", ":", "", ""),
];

/// flat (non-nesting) families, pumped to large n: (name, prefix, repeated unit, suffix)
pub const FLAT_PUMPS: &[(&str, &str, &str, &str)] = &[
    ("statements", "main :: () { ", "a; ", "}"),
    ("globals", "", "x :: 1;\n", ""),
    ("binary-chain", "x :: a", " + a", ";"),
    ("field-chain", "x :: a", ".b", ";"),
    ("deref-chain", "x :: a", ".^", ";"),
    ("try-chain", "x :: a", ".try", ";"),
    ("call-args", "x :: f(", "a, ", ");"),
    ("array-items", "x :: .[", "1, ", "];"),
    ("struct-fields", "S :: struct { ", "a: i32, ", "};"),
    ("enum-variants", "E :: enum { ", "A: i32, ", "};"),
    ("struct-literal-fields", "x :: .{ ", "a = 1, ", "};"),
    ("switch-arms", "x :: switch a in b { ", "A => 1, ", "};"),
    ("lambda-params", "f :: (", "a: i32, ", ") {};"),
    ("comments", "", "// c\n", ""),
    ("strings", "", "x :: \"s\\n\";\n", ""),
    ("error-tokens", "", "$ ", ""),
    ("stray-closers", "", ") ", ""),
    ("stray-dots", "", ". ", ""),
];

pub fn flat_pump_text(family: usize, n: usize) -> String {
    let (_, pre, unit, post) = FLAT_PUMPS[family];
    format!("{pre}{}{post}", unit.repeat(n))
}

pub fn pump_text(family: usize, n: usize, wrap: bool) -> String {
    if family >= PUMPS.len() {
        return flat_pump_text(family - PUMPS.len(), n);
    }
    let (_, open, mid, close) = PUMPS[family];
    let body = format!("{}{}{}", open.repeat(n), mid, close.repeat(n));
    if wrap {
        format!("main :: () {{ x :: {body}; }}")
    } else {
        body
    }
}

pub fn pump_name(family: usize) -> &'static str {
    if family >= PUMPS.len() {
        FLAT_PUMPS[family - PUMPS.len()].0
    } else {
        PUMPS[family].0
    }
}

/// child process: parse one pump input with the default-sized main thread, print steps
pub fn pump_child(rest: &[String]) -> ! {
    let family: usize = rest[0].parse().unwrap();
    let n: usize = rest[1].parse().unwrap();
    let wrap = rest[2] == "1";
    let entry = if rest[3] == "repl" { Entry::ReplLine } else { Entry::SourceFile };
    let text = pump_text(family, n, wrap);
    let mut acc = ParseAcc::default();
    check_parse(&text, entry, &mut acc);
    if let Some(f) = acc.failures.all().next() {
        println!("FAIL\t{}\t{}", f.signature, f.detail.replace('\n', " "));
    } else {
        println!("OK\t{}", acc.steps);
    }
    std::process::exit(0)
}

pub fn run_pumps(
    acc: &mut ParseAcc,
    sizes: &[usize],
    flat_sizes: &[usize],
) -> (u64, Vec<serde_json::Value>) {
    use rayon::prelude::*;
    let exe = std::env::current_exe().unwrap();
    let mut jobs = Vec::new();
    for family in 0..PUMPS.len() {
        for wrap in [false, true] {
            for entry in ["src", "repl"] {
                if wrap && entry == "repl" {
                    continue;
                }
                jobs.push((family, wrap, entry, sizes.to_vec()));
            }
        }
    }
    for family in 0..FLAT_PUMPS.len() {
        for entry in ["src", "repl"] {
            jobs.push((PUMPS.len() + family, false, entry, flat_sizes.to_vec()));
        }
    }
    let results: Vec<_> = jobs
        .par_iter()
        .map(|(family, wrap, entry, sizes)| {
            let (family, wrap, entry) = (*family, *wrap, *entry);
            let mut per_size = Vec::new();
            for &n in sizes {
                let out = std::process::Command::new(&exe)
                    .args([
                        "parse-pump-child",
                        &family.to_string(),
                        &n.to_string(),
                        if wrap { "1" } else { "0" },
                        entry,
                    ])
                    .output();
                let res = match out {
                    Ok(o) => {
                        let so = String::from_utf8_lossy(&o.stdout).to_string();
                        if let Some(rest) = so.strip_prefix("OK\t") {
                            Ok(rest.trim().parse::<u64>().unwrap_or(0))
                        } else if let Some(rest) = so.strip_prefix("FAIL\t") {
                            let mut it = rest.trim_end().splitn(2, '\t');
                            Err((
                                it.next().unwrap_or("").to_string(),
                                it.next().unwrap_or("").to_string(),
                            ))
                        } else {
                            Err((
                                format!("abnormal-exit({})", o.status),
                                truncate(&String::from_utf8_lossy(&o.stderr), 300),
                            ))
                        }
                    }
                    Err(e) => machinery_failure(&format!("cannot spawn pump child: {e}")),
                };
                per_size.push((n, res));
            }
            (family, wrap, entry, per_size)
        })
        .collect();
    let mut count = 0;
    let mut table = Vec::new();
    for (family, wrap, entry, per_size) in results {
        let api = if entry == "repl" { "parse_repl_line" } else { "parse_source_file" };
        let mut prev: Option<(usize, u64)> = None;
        let mut row = Vec::new();
        for (n, res) in per_size {
            count += 1;
            acc.inputs += 1;
            acc.parses += 1;
            match res {
                Ok(steps) => {
                    acc.steps += steps;
                    row.push(json!([n, steps]));
                    // nesting families (depth <= 200) only have to stay within the fuel; flat
                    // families must be roughly linear: k times the input, at most 1.3 k times the steps
                    if let Some((pn, ps)) = prev.filter(|_| family >= PUMPS.len()) {
                        let factor = n as f64 / pn as f64;
                        if (steps as f64) > (ps as f64) * factor * 1.3 + 1000.0 {
                            acc.failures.push(Failure {
                                signature: "superlinear-steps".into(),
                                input: pump_text(family, n, wrap),
                                api: api.into(),
                                detail: format!(
                                    "flat pump family {}: {} steps at n={}, {} steps at n={}",
                                    pump_name(family), ps, pn, steps, n
                                ),
                            });
                        }
                    }
                    prev = Some((n, steps));
                }
                Err((sig, detail)) => {
                    row.push(json!([n, sig]));
                    acc.failures.push(Failure {
                        signature: sig,
                        input: pump_text(family, n, wrap),
                        api: api.into(),
                        detail: format!("pump family {} n={}: {}", pump_name(family), n, detail),
                    });
                    break;
                }
            }
        }
        table.push(json!({"family": pump_name(family), "wrapped": wrap, "entry": entry, "steps": row}));
    }
    (count, table)
}

pub fn run(args: &Args) -> ! {
    let mut report = Report::new("C23", args);
    let quick = args.tier == Tier::Quick;
    let f = |acc: &mut ParseAcc, _idx: &[usize], text: &str| both(acc, text);
    let mut total = ParseAcc::default();
    let mut bounds = Vec::new();

    let full_k = if quick { 3 } else { 5 };
    for len in 0..=full_k {
        total.merge(for_all_sequences::<ParseAcc>(FULL, len, &f));
    }
    bounds.push(json!({"family": "full-alphabet", "symbols": FULL.len(), "max_len_completed": full_k}));

    let red_k = if quick { 6 } else { 7 };
    for len in 0..=red_k {
        total.merge(for_all_sequences::<ParseAcc>(REDUCED, len, &f));
    }
    bounds.push(json!({"family": "reduced-alphabet", "symbols": REDUCED.len(), "max_len_completed": red_k,
        "not_completed": "length 8 (4.3e9 inputs) of the quantifier is not reached"}));

    // corpus, 0 deviations and every single-token edit
    let snippets = crate::corpus::snippets();
    let reps: &[&str] = if quick { &REPLACEMENTS[..6] } else { REPLACEMENTS };
    {
        use rayon::prelude::*;
        let acc = snippets
            .par_iter()
            .fold(ParseAcc::default, |mut acc, (_, text)| {
                both(&mut acc, text);
                if text.len() < 20_000 {
                    edits_of(text, reps, &mut |t| both(&mut acc, t));
                }
                acc
            })
            .reduce(ParseAcc::default, |mut a, b| {
                a.merge(b);
                a
            });
        total.merge(acc);
    }
    bounds.push(json!({"family": "corpus-single-token-edits", "snippets": snippets.len(),
        "edits": format!("deletion, duplication, adjacent swap, {} replacements at every token", reps.len())}));

    let sizes: &[usize] = if quick { &[50, 100, 200] } else { &[12, 25, 50, 100, 200] };
    let flat_sizes: &[usize] = if quick { &[500, 2000, 8000] } else { &[500, 2000, 8000, 32000] };
    let (pump_cases, pump_table) = run_pumps(&mut total, sizes, flat_sizes);
    bounds.push(json!({"family": "pumps", "nesting_families": PUMPS.len(), "nesting_depths": sizes,
        "flat_families": FLAT_PUMPS.len(), "flat_repetitions": flat_sizes, "cases": pump_cases}));

    if total.failures.total() == 0 && total.outcomes.len() < 1000 {
        machinery_failure(&format!("vacuous run: {} distinct outcomes", total.outcomes.len()));
    }

    report.set("states", total.inputs);
    report.set("transitions", total.steps);
    report.set("traces_validated_against_impl", total.parses);
    report.set("exhaustive", true);
    report.set("bounds_completed", bounds);
    report.set("distinct_outcomes", total.outcomes.len());
    report.set("parses_with_syntax_errors", total.with_errors);
    report.set("syntax_errors_checked", total.errors_seen);
    report.set("max_steps_per_token", total.max_ratio_milli as f64 / 1000.0);
    report.set("max_steps_per_token_input", total.max_ratio_input.clone());
    report.set("fuel", format!("{FUEL_BASE} + {FUEL_PER_TOKEN} * tokens parser steps"));
    report.set("pump_steps", pump_table);
    report.set(
        "rule",
        "states = input texts (each parsed as a source file and as a REPL line by the real parser); \
         transitions = parser steps (token inspections) executed; an outcome is a distinct (tree shape, error locations)",
    );
    let mut samples = total.samples.clone();
    samples.push("parse_source_file(\"\") and parse_repl_line(\"\") (the empty input is the first case)".into());
    report.set("samples", samples);
    report.assumptions = vec![
        "hang detection = parser fuel (hook H2): a parse that inspects more than 4000 + 2000*tokens tokens is non-terminating or super-linear".into(),
        "inputs are produced by the real lexer from text; token streams the lexer cannot produce are not explored".into(),
    ];
    report.failures = total.failures;
    report.finish()
}
