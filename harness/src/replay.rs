//! `capy-verif replay <file.json>`: re-executes one recorded case without any explorer.
//! The panic hook is left at its default so RUST_BACKTRACE=1 shows where the compiler failed.

use crate::common::*;

pub fn run(path: &str) -> ! {
    let text = std::fs::read_to_string(path)
        .unwrap_or_else(|e| machinery_failure(&format!("cannot read {path}: {e}")));
    let v: serde_json::Value = serde_json::from_str(&text)
        .unwrap_or_else(|e| machinery_failure(&format!("bad replay file: {e}")));
    let api = v["api"].as_str().unwrap_or("");
    let input = v["input"].as_str().unwrap_or("");
    println!("replaying {api} on {input:?}");
    println!("recorded: {} :: {}", v["signature"], v["detail"]);
    let failures = if api == "lex" {
        let table = crate::lex_mc::KindTable::load();
        let mut acc = crate::lex_mc::LexAcc::default();
        crate::lex_mc::check_lex(&table, input, &mut acc);
        acc.failures
    } else if api.starts_with("parse_") {
        let entry = if api == "parse_repl_line" {
            crate::parse_mc::Entry::ReplLine
        } else {
            crate::parse_mc::Entry::SourceFile
        };
        if std::env::var_os("RUST_BACKTRACE").is_some() {
            // no catching: show the raw panic
            let tokens = lexer::lex(input);
            parser::verif::set_fuel(Some(
                crate::parse_mc::FUEL_BASE + crate::parse_mc::FUEL_PER_TOKEN * tokens.len() as u64,
            ));
            let parse = match entry {
                crate::parse_mc::Entry::SourceFile => parser::parse_source_file(&tokens, input),
                crate::parse_mc::Entry::ReplLine => parser::parse_repl_line(&tokens, input),
            };
            println!("{parse:?}");
        }
        let mut acc = crate::parse_mc::ParseAcc::default();
        crate::parse_mc::check_parse(input, entry, &mut acc);
        acc.failures
    } else if api.starts_with("front-end") || api.starts_with("Diagnostic::display") || api.starts_with("InferenceCtx") {
        let core = crate::front_mc::core_modules();
        let req = crate::front_mc::request_for(0, input, &core, true);
        let out = crate::front::compile(&req);
        println!("{}", serde_json::to_string_pretty(&out.to_json()).unwrap());
        let mut acc = crate::front_mc::FrontAcc::default();
        crate::front_mc::classify(&mut acc, &req, out);
        let mut f = acc.failures;
        f.merge(acc.c07_failures);
        f
    } else {
        machinery_failure(&format!("replay of api {api:?} is not supported by this binary"))
    };
    if failures.total() == 0 {
        println!("REPLAY: no failure reproduced");
        std::process::exit(0)
    }
    for f in failures.all() {
        println!("REPLAY: reproduced {} :: {}", f.signature, f.detail);
    }
    std::process::exit(1)
}
