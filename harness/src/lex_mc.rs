//! C22 – lexing is total and lossless.
//!
//! Exhaustive enumeration of (a) every string of length <= k over two 24-symbol alphabets that
//! cover every token-start character class and (b) every sequence of <= 3 "words" (keywords,
//! literals, operators, unterminated forms) joined with and without a space.  Every input is run
//! through the real `lexer::lex`; the oracle is a set of invariants plus a kind/text agreement
//! table built at run time from /repo/tokenizer.txt.

use std::collections::{BTreeMap, BTreeSet};

use regex::Regex;
use serde_json::json;
use syntax::TokenKind;

use crate::common::*;

/// the token definitions of the language (kind = 'literal' or kind = /regex/), as documented by
/// tokenizer.txt of the pinned revision
pub const REFERENCE_TOKENS: &str = r####"// This is a DSL I quickly put together to make it easier to
// make new tokens or alter existing tokens
Whitespace = /[ \t\r\n]+/                                       |=> 'whitespace'
// Ideally this would be a literal instead of a regex
NonBreakingSpace = /\xa0/                                       |=> 'non-breaking space character'
As = 'as'
If = 'if'
Else = 'else'
While = 'while'
Loop = 'loop'
Switch = 'switch'
In = 'in'
Distinct = 'distinct'
Mut = 'mut'
Extern = 'extern'
Struct = 'struct'
Enum = 'enum'
Comptime = 'comptime'
Return = 'return'
Break = 'break'
Continue = 'continue'
Defer = 'defer'
Try = 'try'
Catch = 'catch'
Ident = /[A-Za-z_][A-Za-z0-9_]*/                                |=> 'identifier'
// these basically match numbers that can contain `_`,
// but must contain a digit as the first char
Float = /(\d[\d_]*)?\.(\d[\d_]*)+([eE][-+]?(\d[\d_]*)+)?/       |=> 'float'
Int = /(\d[\d_]*)+([eE](\d[\d_]*)+)?/                           |=> 'integer'
Hex = /0x[0-9a-fA-F]+/                                          |=> 'hex literal'
Bin = /0b[01]+/                                                 |=> 'binary literal'
Bool = /true|false/                                             |=> 'boolean'
_SingleQuote            |=> '`'`'
_DoubleQuote            |=> '`"`'
_Escape                 |=> 'escape sequence'
_StringContents         |=> 'string'
Plus = '+'
Hyphen = '-'
Asterisk = '*'
Slash = '/'
Percent = '%'
Left = '<'
DoubleLeft = '<<'
LeftEquals = '<='
Right = '>'
DoubleRight = '>>'
RightEquals = '>='
Bang = '!'
BangEquals = '!='
And = '&'
DoubleAnd = '&&'
Pipe = '|'
DoublePipe = '||'
Equals = '='
DoubleEquals = '=='
Tilde = '~'
Comma = ','
Dot = '.'
Ellipsis = '...'
Question = '?'
Arrow = '->'
FatArrow = '=>'
Caret = '^'
Backtick = '`'
LParen = '('
RParen = ')'
LBrack = '['
RBrack = ']'
LBrace = '{'
RBrace = '}'
_CommentLeader                  |=> 'comment'
_CommentContents                |=> 'comment'
Colon = ':'
Semicolon = ';'
Hash = '#'
Error                           |=> 'an unrecognized token'
// The string/char doesn't have to end on a quote, this results in better error messages
// this will internally get replaced by _SingleQuote, _Escape, and _StringContents
__InternalString = /"([^"\\\n]|\\.)*"?/
// this will internally get replaced by _DoubleQuote, _Escape, and _StringContents
__InternalChar = /'([^'\\\n]|\\.)*'?/
// this will internally get replaced by _CommentLeader and _CommentContents
__InternalComment = ///.*/
"####;

pub struct KindTable {
    /// Debug name of the TokenKind -> matcher
    literal: BTreeMap<String, String>,
    regex: BTreeMap<String, Regex>,
    reserved_words: BTreeSet<String>,
    all_full: Vec<(String, Regex)>,
}

impl KindTable {
    pub fn load() -> Self {
        // the reference is a copy of the language's token definitions, *not* the file in /repo:
        // the oracle must not move when the code under test (which is generated from
        // /repo/tokenizer.txt) is changed
        let text = REFERENCE_TOKENS.to_string();
        let mut literal = BTreeMap::new();
        let mut regex = BTreeMap::new();
        let mut reserved_words = BTreeSet::new();
        let mut all_full = Vec::new();
        for line in text.lines() {
            let line = line.trim();
            if line.is_empty() || line.starts_with("//") {
                continue;
            }
            let (name, rest) = match line.split_once('=') {
                Some((n, r)) if !n.trim().contains(' ') && !n.contains('|') => (n.trim(), r.trim()),
                _ => continue, // a token without a pattern (`_SingleQuote |=> ..`, `Error |=> ..`)
            };
            if name.starts_with("__") {
                continue;
            }
            let name = name.trim_start_matches('_').to_string();
            if let Some(r) = rest.strip_prefix('\'') {
                // literal, ends at the next quote
                let lit = &r[..r.find('\'').unwrap()];
                if lit.chars().all(|c| c.is_ascii_alphabetic()) {
                    reserved_words.insert(lit.to_string());
                }
                all_full.push((
                    name.clone(),
                    Regex::new(&format!("^(?:{})$", regex::escape(lit))).unwrap(),
                ));
                literal.insert(name, lit.to_string());
            } else if let Some(r) = rest.strip_prefix('/') {
                // regex, ends at the last '/' before an optional `|=>`
                let body = r.split("|=>").next().unwrap().trim_end();
                let body = body.strip_suffix('/').unwrap_or(body);
                let re = Regex::new(&format!("^(?:{body})$")).unwrap_or_else(|e| {
                    machinery_failure(&format!("tokenizer.txt regex for {name}: {e}"))
                });
                all_full.push((name.clone(), re.clone()));
                regex.insert(name, re);
            }
        }
        reserved_words.insert("true".into());
        reserved_words.insert("false".into());
        Self {
            literal,
            regex,
            reserved_words,
            all_full,
        }
    }
}

#[derive(Default)]
pub struct LexAcc {
    pub inputs: u64,
    tokens: u64,
    empty_tokens: u64,
    kinds_seen: BTreeSet<String>,
    /// distinct kind sequences seen (capped)
    outcomes: BTreeSet<u64>,
    pub failures: Failures,
    samples: Vec<String>,
}

impl Acc for LexAcc {
    fn merge(&mut self, other: Self) {
        self.inputs += other.inputs;
        self.tokens += other.tokens;
        self.empty_tokens += other.empty_tokens;
        self.kinds_seen.extend(other.kinds_seen);
        if self.outcomes.len() < 2_000_000 {
            self.outcomes.extend(other.outcomes);
        }
        self.failures.merge(other.failures);
        if self.samples.len() < 6 {
            self.samples.extend(other.samples.into_iter().take(2));
        }
    }
}

/// checks one input; returns the failures (signature, detail)
pub fn check_lex(table: &KindTable, text: &str, acc: &mut LexAcc) {
    acc.inputs += 1;
    let fail = |acc: &mut LexAcc, sig: &str, detail: String| {
        acc.failures.push(Failure {
            signature: sig.to_string(),
            input: text.to_string(),
            api: "lex".into(),
            detail,
        });
    };

    let tokens = match catch(|| lexer::lex(text)) {
        Ok(t) => t,
        Err(p) => {
            fail(acc, &panic_class(&p), format!("{} at {}", p.message, p.location));
            return;
        }
    };

    let n = tokens.len();
    // ranges: contiguous from 0 to len, ascending, on char boundaries
    let ranges = match catch(|| (0..n).map(|i| tokens.range(i)).collect::<Vec<_>>()) {
        Ok(r) => r,
        Err(p) => {
            fail(acc, &format!("range-{}", panic_class(&p)), p.message);
            return;
        }
    };
    let mut expected_start = 0u32;
    for (i, r) in ranges.iter().enumerate() {
        let (s, e) = (u32::from(r.start()), u32::from(r.end()));
        if s != expected_start {
            fail(acc, "not-contiguous", format!("token {i} starts at {s}, expected {expected_start}"));
            return;
        }
        if e < s || e as usize > text.len() {
            fail(acc, "range-out-of-input", format!("token {i} is {s}..{e}, input length {}", text.len()));
            return;
        }
        if !text.is_char_boundary(s as usize) || !text.is_char_boundary(e as usize) {
            fail(acc, "not-on-char-boundary", format!("token {i} is {s}..{e}"));
            return;
        }
        if e == s {
            acc.empty_tokens += 1;
        }
        expected_start = e;
    }
    if expected_start as usize != text.len() {
        fail(acc, "does-not-end-at-input-length", format!("tokens end at {expected_start}, input length {}", text.len()));
        return;
    }

    // iter() agrees with kind(i)/range(i)
    match catch(|| tokens.iter().collect::<Vec<_>>()) {
        Ok(v) => {
            if v.len() != n
                || v.iter()
                    .enumerate()
                    .any(|(i, (k, r))| *k != tokens.kind(i) || *r != ranges[i])
            {
                fail(acc, "iter-disagrees-with-range", String::new());
                return;
            }
        }
        Err(p) => {
            fail(acc, &format!("iter-{}", panic_class(&p)), p.message);
            return;
        }
    }

    // kind / text agreement
    acc.tokens += n as u64;
    let mut in_lit: Option<char> = None;
    let mut prev_kind: Option<TokenKind> = None;
    let mut kind_hash = 0u64;
    for i in 0..n {
        let kind = tokens.kind(i);
        let r = ranges[i];
        let t = &text[usize::from(r.start())..usize::from(r.end())];
        let name = format!("{kind:?}");
        kind_hash = kind_hash.wrapping_mul(1099511628211).wrapping_add(kind as u64 + 1);
        if acc.kinds_seen.len() < 200 && !acc.kinds_seen.contains(&name) {
            acc.kinds_seen.insert(name.clone());
        }
        let bad = |why: String| {
            Some(format!("token {i} {name}@{}..{} {t:?}: {why}", u32::from(r.start()), u32::from(r.end())))
        };
        let mut problem: Option<String> = None;

        if let Some(q) = in_lit {
            match kind {
                TokenKind::StringContents => {
                    if t.is_empty() || t.contains(q) || t.contains('\\') || t.contains('\n') {
                        problem = bad(format!("contents of a {q} literal"));
                    }
                }
                TokenKind::Escape => {
                    let mut cs = t.chars();
                    if !(cs.next() == Some('\\') && cs.next().is_some_and(|c| c != '\n') && cs.next().is_none()) {
                        problem = bad("escape must be a backslash and one character".into());
                    }
                }
                TokenKind::SingleQuote | TokenKind::DoubleQuote
                    if t.chars().next() == Some(q) && t.len() == 1 =>
                {
                    in_lit = None;
                    prev_kind = Some(kind);
                    continue;
                }
                _ => {
                    // the literal ended without its closing quote: only possible before a
                    // newline, or before a backslash that cannot form an escape
                    let ok = t.starts_with('\n')
                        || (t == "\\"
                            && (usize::from(r.end()) == text.len()
                                || text[usize::from(r.end())..].starts_with('\n')));
                    if !ok {
                        problem = bad(format!("a {q} literal ended here without a closing quote"));
                    }
                    in_lit = None;
                    // fall through: the token is checked as a normal token below
                }
            }
            if in_lit.is_some() {
                if let Some(p) = problem {
                    fail(acc, "kind-text-disagree", p);
                    return;
                }
                prev_kind = Some(kind);
                continue;
            }
        }

        if problem.is_none() {
            match kind {
                TokenKind::SingleQuote => {
                    if t != "'" {
                        problem = bad("not a single quote".into());
                    }
                    in_lit = Some('\'');
                }
                TokenKind::DoubleQuote => {
                    if t != "\"" {
                        problem = bad("not a double quote".into());
                    }
                    in_lit = Some('"');
                }
                TokenKind::Escape | TokenKind::StringContents => {
                    problem = bad("outside of a string or char literal".into());
                }
                TokenKind::CommentLeader => {
                    if t != "//" {
                        problem = bad("not `//`".into());
                    }
                }
                TokenKind::CommentContents => {
                    if prev_kind != Some(TokenKind::CommentLeader) || t.contains('\n') {
                        problem = bad("comment contents must follow `//` and stay on its line".into());
                    }
                }
                TokenKind::Error => {
                    if t.is_empty() {
                        problem = bad("empty error token".into());
                    } else if let Some((other, _)) =
                        table.all_full.iter().find(|(_, re)| re.is_match(t))
                    {
                        problem = bad(format!("error token whose text is a valid {other}"));
                    }
                }
                _ => {
                    if let Some(lit) = table.literal.get(&name) {
                        if t != lit {
                            problem = bad(format!("expected the text {lit:?}"));
                        }
                    } else if let Some(re) = table.regex.get(&name) {
                        if !re.is_match(t) {
                            problem = bad(format!("does not match /{}/", re.as_str()));
                        } else if name == "Ident" && table.reserved_words.contains(t) {
                            problem = bad("identifier token for a reserved word".into());
                        }
                    } else {
                        problem = bad("token kind without a pattern in tokenizer.txt".into());
                    }
                }
            }
        }
        if let Some(p) = problem {
            fail(acc, "kind-text-disagree", p);
            return;
        }
        prev_kind = Some(kind);
    }
    // a comment leader is always followed by its contents token (possibly empty)
    if acc.outcomes.len() < 500_000 {
        acc.outcomes.insert(kind_hash);
    }
    if acc.samples.len() < 2 && n >= 3 {
        acc.samples.push(format!("{text:?} -> {tokens:?}").replace('\n', " "));
    }
}

const ALPHA1: [&str; 24] = [
    "a", "_", "Z", "0", "1", "9", "x", "b", "e", ".", "+", "-", "<", ">", "=", "!", "&", "|", "/",
    "\"", "'", "\\", " ", "\n",
];
const ALPHA2: [&str; 24] = [
    "a", "é", "\u{a0}", "0", "1", "#", "x", "b", "e", ".", "`", "-", "\r", "\t", "=", "!", "&",
    "|", "/", "\"", "'", "\\", " ", "\n",
];

const WORDS: &[&str] = &[
    "as", "if", "else", "while", "loop", "switch", "in", "distinct", "mut", "extern", "struct",
    "enum", "comptime", "return", "break", "continue", "defer", "try", "catch", "true", "false",
    "iff", "i", "asif", "trues", "_", "a1", "Z_9", "é", "0x1F", "0x", "0b10", "0b2", "1_0", "1e5",
    "1e", "1E+5", "1.5", ".5", "1.", "1.5e-3", "1._5", "\"s\"", "\"\\n\"", "\"a\\\"b\"", "\"s",
    "\"", "'c'", "'\\''", "'c", "'", "\\", "//c", "//", "/", "+", "-", "*", "%", "<", "<<", "<=",
    ">", ">>", ">=", "!", "!=", "&", "&&", "|", "||", "=", "==", "~", ",", ".", "...", "?", "->",
    "=>", "^", "`", "(", ")", "[", "]", "{", "}", ":", ";", "#", "\n", "\u{a0}", "$",
];

pub fn run(args: &Args) -> ! {
    let mut report = Report::new("C22", args);
    let table = KindTable::load();
    let f = |acc: &mut LexAcc, _idx: &[usize], text: &str| check_lex(&table, text, acc);

    let max_len = if args.tier == Tier::Quick { 4 } else { 5 };
    let mut total = LexAcc::default();
    let mut bounds = Vec::new();
    for (name, alpha) in [("alphabet-1", &ALPHA1), ("alphabet-2", &ALPHA2)] {
        for len in 0..=max_len {
            total.merge(for_all_sequences::<LexAcc>(alpha, len, &f));
        }
        bounds.push(json!({"family": name, "symbols": alpha.len(), "max_len_completed": max_len}));
    }

    // word sequences, joined by "" and by " "
    let mut word_alpha: Vec<String> = Vec::new();
    for w in WORDS {
        word_alpha.push(w.to_string());
        word_alpha.push(format!("{w} "));
    }
    let word_refs: Vec<&str> = word_alpha.iter().map(|s| s.as_str()).collect();
    let max_words = 3;
    for len in 1..=max_words {
        total.merge(for_all_sequences::<LexAcc>(&word_refs, len, &f));
    }
    bounds.push(json!({"family": "words", "symbols": word_refs.len(), "max_len_completed": max_words}));

    // the corpus: every .capy file of /repo
    let mut corpus_files = 0;
    for path in crate::corpus::capy_files() {
        if let Ok(text) = std::fs::read_to_string(&path) {
            corpus_files += 1;
            check_lex(&table, &text, &mut total);
        }
    }

    if total.failures.total() == 0 && (total.outcomes.len() < 100 || total.kinds_seen.len() < 40) {
        machinery_failure(&format!(
            "vacuous run: {} distinct kind sequences, {} kinds, {} inputs, failures {:?}",
            total.outcomes.len(),
            total.kinds_seen.len(),
            total.inputs,
            total.failures.by_sig.iter().map(|(k, v)| (k.clone(), v.count, v.examples[0].detail.clone())).collect::<Vec<_>>()
        ));
    }

    report.set("states", total.inputs);
    report.set("transitions", total.tokens);
    report.set("traces_validated_against_impl", total.inputs);
    report.set("exhaustive", true);
    report.set("bounds_completed", bounds);
    report.set("corpus_files", corpus_files);
    report.set("distinct_outcomes", total.outcomes.len());
    report.set("token_kinds_observed", total.kinds_seen.len());
    report.set("empty_tokens_observed", total.empty_tokens);
    report.set(
        "rule",
        "states = input strings lexed by the real lexer::lex; transitions = tokens produced and checked; \
         an outcome is a distinct token-kind sequence",
    );
    let mut samples = total.samples.clone();
    samples.insert(0, "\"\" -> (no tokens)".into());
    report.set("samples", samples);
    report.assumptions = vec![
        "the kind/text table is a reference copy of the language's token definitions (tokenizer.txt of the pinned revision) embedded in the harness; the pattern syntax of logos and of the regex crate agree on these patterns".into(),
        "empty CommentContents tokens after a bare `//` are counted, not reported: the statement allows empty tokens".into(),
    ];
    report.failures = total.failures;
    report.finish()
}
