//! C06 (in-process half) and the in-process half of C07.
//!
//! Families, all through the real front end (and codegen where the input is error free):
//!  1. every string of <= k token spellings, bare and inside three wrappers
//!  2. deviation bounding over the corpus: 0 deviations, then every single-token edit
//!  3. pump families (nesting depth 1..200)
//!
//! C07's in-process oracle on the same runs: no error reported => nothing unsafe and codegen
//! succeeds; a type error attached to an expression => something is flagged unsafe.

use std::collections::{BTreeMap, BTreeSet};
use std::sync::Mutex;
use std::time::Duration;

use serde_json::json;

use crate::common::*;
use crate::front::*;

pub fn core_modules() -> Vec<(String, String)> {
    let mut res = Vec::new();
    let base = std::path::Path::new("/repo/core/src");
    for p in crate::corpus::capy_files() {
        if let Ok(rel) = p.strip_prefix(base) {
            let rel = rel.to_string_lossy().to_string();
            let text = std::fs::read_to_string(&p).unwrap_or_default();
            if rel == "mod.capy" {
                res.push(("core/src/mod.capy".to_string(), text));
            } else {
                res.push((rel, text));
            }
        }
    }
    res
}

/// splits `#- name` multi-module test data like test-utils does (simplified: line based)
pub fn split_modules(input: &str) -> Vec<(String, String)> {
    if !input.contains("#- ") {
        return vec![("main.capy".into(), input.to_string())];
    }
    let mut res: Vec<(String, String)> = Vec::new();
    for line in input.split_inclusive('\n') {
        if let Some(idx) = line.find("#- ") {
            res.push((line[idx + 3..].trim().to_string(), String::new()));
        } else if let Some(last) = res.last_mut() {
            last.1.push_str(line);
        }
    }
    // main.capy is the root
    if let Some(pos) = res.iter().position(|(n, _)| n == "main.capy") {
        let m = res.remove(pos);
        res.insert(0, m);
    }
    res
}

pub fn request_for(id: u64, text: &str, core: &[(String, String)], codegen: bool) -> Request {
    let mut modules = split_modules(text);
    if modules.is_empty() {
        modules.push(("main.capy".into(), String::new()));
    }
    if text.contains("#mod") {
        for (n, t) in core {
            if !modules.iter().any(|(m, _)| m == n) {
                modules.push((n.clone(), t.clone()));
            }
        }
    }
    Request {
        id,
        modules,
        entry: Some("main".into()),
        codegen,
        sched: false,
        track_unsafe: true,
    }
}

pub fn corpus_requests(snippets: &[(String, String)]) -> Vec<Request> {
    let core = core_modules();
    snippets
        .iter()
        .enumerate()
        .filter(|(_, (origin, _))| !origin.starts_with("/repo/core/"))
        .map(|(i, (_, text))| request_for(i as u64, text, &core, true))
        .collect()
}

#[derive(Default)]
pub struct FrontAcc {
    pub compiles: u64,
    pub ok: u64,
    pub with_errors: u64,
    pub objects: u64,
    pub skipped: u64,
    pub inconclusive_comptime_timeouts: u64,
    pub diags: u64,
    pub diag_kinds: BTreeSet<String>,
    pub stages: BTreeMap<String, u64>,
    pub failures: Failures,
    pub c07_failures: Failures,
    pub c07_checked: u64,
    pub samples: Vec<String>,
}

fn input_of(req: &Request) -> String {
    if req.modules.len() == 1 {
        req.modules[0].1.clone()
    } else {
        // the modules of `core` are only attached to requests that use `#mod`; a test's own `math.capy` is part of the input
        let uses_core = req.modules.iter().any(|(n, _)| n.starts_with("core/"));
        req.modules
            .iter()
            .filter(|(n, _)| !n.starts_with("core/") && !(uses_core && is_core_name(n)))
            .map(|(n, t)| format!("#- {n}\n{t}"))
            .collect::<Vec<_>>()
            .join("\n")
    }
}

fn is_core_name(n: &str) -> bool {
    matches!(
        n,
        "fmt.capy" | "libc.capy" | "math.capy" | "mem.capy" | "meta.capy" | "ptr.capy"
    ) || n.starts_with("structs/")
}

pub fn classify(acc: &mut FrontAcc, req: &Request, out: Outcome) {
    acc.compiles += 1;
    *acc.stages.entry(out.stage.clone()).or_default() += 1;
    let input = input_of(req);
    let api = "front-end pipeline (in-process)".to_string();
    match out.status.as_str() {
        "ok" => acc.ok += 1,
        "skipped" => {
            acc.skipped += 1;
            return;
        }
        "timeout" => {
            if input.contains("comptime") || input.contains("loop") || input.contains("while") {
                // user code running in the comptime JIT: not a compiler hang
                acc.inconclusive_comptime_timeouts += 1;
            } else {
                acc.failures.push(Failure {
                    signature: "timeout".into(),
                    input,
                    api,
                    detail: out.detail,
                });
            }
            return;
        }
        "died" => {
            let sig = if out.detail.contains("Error defining function") || out.detail.contains("VerifierError") {
                "died:cranelift-verifier-error".to_string()
            } else if out.detail.contains("signal: 11") || out.detail.contains("signal: 6") {
                format!("died:{}", if out.detail.contains("signal: 11") { "SIGSEGV" } else { "SIGABRT" })
            } else {
                "died".to_string()
            };
            acc.failures.push(Failure {
                signature: sig,
                input,
                api,
                detail: out.detail,
            });
            return;
        }
        _ => {
            let (sig, detail) = out.detail.split_once(" :: ").unwrap_or((&out.detail, ""));
            acc.failures.push(Failure {
                signature: format!("{}(stage {})", sig, out.stage),
                input,
                api,
                detail: detail.to_string(),
            });
            return;
        }
    }
    if out.has_errors {
        acc.with_errors += 1;
    }
    if out.object_len.is_some() {
        acc.objects += 1;
    }
    for d in &out.diags {
        acc.diags += 1;
        if acc.diag_kinds.len() < 400 {
            acc.diag_kinds.insert(format!("{}:{}", d.stage, d.kind));
        }
        if !d.render_problem.is_empty() {
            let (sig, detail) = d
                .render_problem
                .split_once(" :: ")
                .unwrap_or((&d.render_problem, ""));
            acc.failures.push(Failure {
                signature: sig.to_string(),
                input: input.clone(),
                api: format!("Diagnostic::display({}:{})", d.stage, d.kind),
                detail: detail.to_string(),
            });
        }
    }
    // C07, in process
    acc.c07_checked += 1;
    if !out.has_errors && out.any_unsafe {
        acc.c07_failures.push(Failure {
            signature: "unsafe-without-error".into(),
            input: input.clone(),
            api: "InferenceCtx::finish(track_unsafe_to_compile)".into(),
            detail: "no error diagnostic but any_were_unsafe_to_compile".into(),
        });
    }
    // an error inside the header of an `extern` definition has no code that could be flagged: the definition has no body and
    // nothing is compiled for it (`foo : 1 extern;`) - only errors in code that would be compiled are demanded to be flagged
    let in_extern_header = |d: &DiagOut| -> bool {
        let text = req
            .modules
            .iter()
            .find(|(name, _)| d.file.ends_with(name.as_str()) || name.ends_with(d.file.as_str()))
            .or_else(|| req.modules.first())
            .map(|(_, t)| t.as_str())
            .unwrap_or("");
        match text.get(d.end as usize..) {
            Some(rest) => rest.split(';').next().is_some_and(|r| r.trim() == "extern" || r.trim().ends_with(" extern")),
            None => false,
        }
    };
    if let Some(d) = out.diags.iter().find(|d| d.stage == "ty" && d.error && d.has_expr && !in_extern_header(d)) {
        if !out.any_unsafe {
            acc.c07_failures.push(Failure {
                signature: format!("error-without-unsafe:{}", d.kind),
                input: input.clone(),
                api: "InferenceCtx::finish(track_unsafe_to_compile)".into(),
                detail: format!("type error {} at {}..{} attached to an expression, but nothing was flagged unsafe", d.kind, d.start, d.end),
            });
        }
    }
    if acc.samples.len() < 3 && out.diags.len() == 1 && input.len() < 80 {
        acc.samples.push(format!("{input:?} -> {}:{} at {}..{}", out.diags[0].stage, out.diags[0].kind, out.diags[0].start, out.diags[0].end));
    }
}

pub const WRAPPERS: &[(&str, &str)] = &[
    ("", ""),
    ("main :: () { ", " }"),
    ("x :: ", ";"),
    ("main :: () { x := ", "; }"),
];

/// the token alphabet of family 1 (a subset of the parser's, biased towards what reaches lowering)
pub const TOKENS: &[&str] = &[
    "a", "1", "\"s\"", "i32", "if ", "else ", "while ", "loop ", "switch ", "in ", "distinct ",
    "mut ", "struct ", "enum ", "comptime ", "return ", "break ", "continue ", "defer ", "+", "-",
    "<", "!", "=", "==", ",", ".", "?", "->", "=>", "^", "`", "(", ")", "[", "]", "{", "}", ":",
    ";", "#", " ",
];

pub fn run_requests(reqs: Vec<Request>, timeout: Duration) -> FrontAcc {
    let queue = Mutex::new(reqs.into_iter());
    let acc = Mutex::new(FrontAcc::default());
    run_pool(
        16,
        timeout,
        &|| queue.lock().unwrap().next(),
        &|req, out| classify(&mut acc.lock().unwrap(), req, out),
    );
    acc.into_inner().unwrap()
}

fn merge(a: &mut FrontAcc, b: FrontAcc) {
    a.compiles += b.compiles;
    a.ok += b.ok;
    a.with_errors += b.with_errors;
    a.objects += b.objects;
    a.skipped += b.skipped;
    a.inconclusive_comptime_timeouts += b.inconclusive_comptime_timeouts;
    a.diags += b.diags;
    a.diag_kinds.extend(b.diag_kinds);
    for (k, v) in b.stages {
        *a.stages.entry(k).or_default() += v;
    }
    a.failures.merge(b.failures);
    a.c07_failures.merge(b.c07_failures);
    a.c07_checked += b.c07_checked;
    if a.samples.len() < 4 {
        a.samples.extend(b.samples.into_iter().take(2));
    }
}

pub struct SweepResult {
    pub acc: FrontAcc,
    pub bounds: Vec<serde_json::Value>,
}

pub fn sweep(quick: bool) -> SweepResult {
    let core = core_modules();
    let mut total = FrontAcc::default();
    let mut bounds = Vec::new();
    let mut id = 0u64;

    // family 1: token strings
    let k = if quick { 2 } else { 3 };
    let mut reqs = Vec::new();
    let mut idx = vec![0usize; 0];
    for len in 0..=k {
        idx.clear();
        idx.resize(len, 0);
        'outer: loop {
            let body: String = idx.iter().map(|&i| TOKENS[i]).collect();
            for (pre, post) in WRAPPERS {
                id += 1;
                reqs.push(Request::single(id, &format!("{pre}{body}{post}")));
            }
            let mut pos = len;
            loop {
                if pos == 0 {
                    break 'outer;
                }
                pos -= 1;
                idx[pos] += 1;
                if idx[pos] < TOKENS.len() {
                    break;
                }
                idx[pos] = 0;
            }
        }
    }
    let n1 = reqs.len();
    merge(&mut total, run_requests(reqs, Duration::from_secs(10)));
    bounds.push(json!({"family": "token-strings", "symbols": TOKENS.len(), "wrappers": WRAPPERS.len(), "max_len_completed": k, "compilations": n1}));

    // family 2: corpus, 0 deviations (with codegen) then every single-token edit
    let snippets: Vec<(String, String)> = crate::corpus::snippets()
        .into_iter()
        .filter(|(o, _)| !o.starts_with("/repo/core/"))
        .collect();
    let mut reqs = Vec::new();
    for (_, text) in &snippets {
        id += 1;
        reqs.push(request_for(id, text, &core, true));
    }
    let n2a = reqs.len();
    merge(&mut total, run_requests(reqs, Duration::from_secs(30)));

    let reps: &[&str] = if quick {
        &crate::parse_mc::REPLACEMENTS[..3]
    } else {
        crate::parse_mc::REPLACEMENTS
    };
    let max_len = if quick { 400 } else { 4000 };
    let mut reqs = Vec::new();
    let mut edited_snippets = 0;
    for (origin, text) in &snippets {
        // snippets that need `core` compile ~50x slower; they are edited in the thorough tier only
        if text.len() > max_len || (quick && text.contains("#mod")) || origin.ends_with(".test") {
            continue;
        }
        edited_snippets += 1;
        crate::parse_mc::edits_of(text, reps, &mut |t| {
            id += 1;
            reqs.push(request_for(id, t, &core, false));
        });
    }
    let n2b = reqs.len();
    merge(&mut total, run_requests(reqs, Duration::from_secs(20)));
    bounds.push(json!({"family": "corpus", "snippets_0_deviations": n2a, "snippets_edited": edited_snippets,
        "single_token_edits": n2b, "edit_alphabet": format!("deletion, duplication, adjacent swap, {} replacements", reps.len())}));

    // family 3: pumps
    let sizes: &[usize] = if quick { &[50, 200] } else { &[1, 2, 5, 12, 25, 50, 100, 150, 200] };
    let mut reqs = Vec::new();
    for family in 0..crate::parse_mc::PUMPS.len() {
        for &n in sizes {
            for wrap in [false, true] {
                id += 1;
                reqs.push(Request::single(id, &crate::parse_mc::pump_text(family, n, wrap)));
            }
        }
    }
    let n3 = reqs.len();
    merge(&mut total, run_requests(reqs, Duration::from_secs(20)));
    bounds.push(json!({"family": "pumps", "families": crate::parse_mc::PUMPS.len(), "sizes": sizes, "compilations": n3}));

    // family 4: diagnostics whose range spans h lines (the renderer abbreviates tall ranges and sizes its gutter by the
    // last line number), for every height and several start lines, around the 2/3/4-digit line-number boundaries
    let mut reqs = Vec::new();
    let heights: Vec<usize> = if quick { (1..=34).collect() } else { (1..=120).collect() };
    let starts: &[usize] = if quick { &[0, 1, 2, 5, 88, 95, 996] } else { &[0, 1, 2, 3, 4, 5, 9, 80, 88, 90, 95, 97, 98, 99, 100, 990, 996, 999] };
    for &h in &heights {
        for &start in starts {
            for kind in 0..3 {
                let mut text = String::new();
                for i in 0..start {
                    text.push_str(&format!("// filler line {i}\n"));
                }
                let inner: String = (0..h.saturating_sub(2)).map(|i| format!("        y{i} := {i};\n")).collect();
                match kind {
                    // a warning on a tall `if` (condition is always false)
                    0 => text.push_str(&format!("main :: () {{ if false {{\n{inner}    }}\n}}\n")),
                    // an error on a tall struct literal (missing member)
                    1 => {
                        let members: String = (0..h.saturating_sub(2)).map(|i| format!("        m{i} = {i},\n")).collect();
                        let decl: String = (0..h.saturating_sub(2)).map(|i| format!("m{i}: i32, ")).collect();
                        text.push_str(&format!("main :: () {{ s := S.{{\n{members}    }};\n}}\nS :: struct {{ {decl} last: i32 }};\n"));
                    }
                    // a type mismatch on a tall block
                    _ => text.push_str(&format!("main :: () {{ x : bool = {{\n{inner}        5\n    }};\n}}\n")),
                }
                id += 1;
                reqs.push(Request::single(id, &text));
            }
        }
    }
    let n4 = reqs.len();
    merge(&mut total, run_requests(reqs, Duration::from_secs(20)));
    bounds.push(json!({"family": "tall-diagnostics", "heights": format!("1..={}", heights.last().unwrap()), "start_lines": starts, "kinds": 3, "compilations": n4}));

    // family 5: type shapes x accesses.  A value of a base type (struct, array, slice, enum variant) is wrapped by every chain
    // of <= 3 (quick 2) wrappers out of {distinct, ^, ^mut, ?}, and the result is used by one of a fixed menu of accesses
    // (field, .len, index, deref, assignment through it, .try, comparison, call).  Most combinations are ill-typed: the
    // compiler has to say so, or build the program - never crash.
    let mut reqs = Vec::new();
    let bases: &[(&str, &str, &str)] = &[
        ("struct", "T0 :: struct { x: i32, a: [2]i32 };", "v0 : T0 = T0.{ x = 3, a = i32.[4, 5] };"),
        ("array", "T0 :: [3]i32;", "v0 : T0 = i32.[1, 2, 3];"),
        ("slice", "T0 :: []i32;", "arr := i32.[1, 2, 3]; v0 : T0 = arr;"),
        ("variant", "E :: enum { A: i32, B };\nT0 :: E.A;", "v0 : T0 = E.A.(5);"),
    ];
    const WRAPS: [&str; 4] = ["distinct", "ptr", "ptrmut", "opt"];
    let accesses: &[&str] = &[
        "r := V.x;", "r := V.a[1];", "r := V.len;", "r := V[1];", "r := V^;", "V.x = 1;", "V[1] = 1;", "r := V.try;", "r := V == V;",
        "r := V();", "r := V.ptr;", "r := V^.x;", "r := V^^;", "r := i32.(V);", "r := #unwrap(V);", "switch q in V { _ => {} }",
    ];
    let max_depth = if quick { 2 } else { 3 };
    let mut chains: Vec<Vec<usize>> = vec![vec![]];
    let mut frontier: Vec<Vec<usize>> = vec![vec![]];
    for _ in 0..max_depth {
        let mut next = Vec::new();
        for c in &frontier {
            for w in 0..WRAPS.len() {
                let mut n = c.clone();
                n.push(w);
                next.push(n);
            }
        }
        chains.extend(next.iter().cloned());
        frontier = next;
    }
    for (_, decl0, val0) in bases {
        for chain in &chains {
            let mut decls = String::from(*decl0);
            decls.push('\n');
            let mut body = format!("    {val0}\n");
            for (k, &w) in chain.iter().enumerate() {
                let (prev, cur) = (k, k + 1);
                match WRAPS[w] {
                    "distinct" => {
                        decls.push_str(&format!("T{cur} :: distinct T{prev};\n"));
                        body.push_str(&format!("    v{cur} : T{cur} = T{cur}.(v{prev});\n"));
                    }
                    "ptr" => {
                        decls.push_str(&format!("T{cur} :: ^T{prev};\n"));
                        body.push_str(&format!("    v{cur} : T{cur} = ^v{prev};\n"));
                    }
                    "ptrmut" => {
                        decls.push_str(&format!("T{cur} :: ^mut T{prev};\n"));
                        body.push_str(&format!("    v{cur} : T{cur} = ^mut v{prev};\n"));
                    }
                    _ => {
                        decls.push_str(&format!("T{cur} :: ?T{prev};\n"));
                        body.push_str(&format!("    v{cur} : T{cur} = v{prev};\n"));
                    }
                }
            }
            let last = format!("v{}", chain.len());
            for acc in accesses {
                id += 1;
                let text = format!("{decls}main :: () {{\n{body}    {}\n}}\n", acc.replace('V', &last));
                reqs.push(request_for(id, &text, &core, true));
            }
        }
    }
    let n5 = reqs.len();
    merge(&mut total, run_requests(reqs, Duration::from_secs(20)));
    bounds.push(json!({"family": "type-shapes-x-accesses", "bases": bases.len(), "wrappers": WRAPS, "max_chain": max_depth, "chains": chains.len(),
                       "accesses": accesses.len(), "compilations": n5}));

    SweepResult { acc: total, bounds }
}

pub fn run(args: &Args, property: &str) -> ! {
    let mut report = Report::new(property, args);
    let quick = args.tier == Tier::Quick;
    let SweepResult { acc, bounds } = sweep(quick);

    if acc.failures.total() + acc.c07_failures.total() == 0 && (acc.diag_kinds.len() < 15 || acc.objects < 20) {
        machinery_failure(&format!(
            "vacuous run: {} diagnostic kinds, {} objects",
            acc.diag_kinds.len(),
            acc.objects
        ));
    }
    report.set("states", acc.compiles);
    report.set("transitions", acc.diags + acc.compiles);
    report.set(
        "traces_validated_against_impl",
        if property == "C07" { acc.c07_checked } else { acc.compiles },
    );
    report.set("exhaustive", true);
    report.set("bounds_completed", bounds);
    report.set("compilations_ok", acc.ok);
    report.set("compilations_with_errors", acc.with_errors);
    report.set("objects_generated", acc.objects);
    report.set("skipped_unresolved_imports", acc.skipped);
    report.set("inconclusive_comptime_timeouts", acc.inconclusive_comptime_timeouts);
    report.set("diagnostics_rendered", acc.diags);
    report.set("distinct_outcomes", acc.diag_kinds.len());
    report.set("diagnostic_kinds", acc.diag_kinds.iter().cloned().collect::<Vec<_>>());
    report.set("stage_reached", json!(acc.stages));
    report.set("samples", if acc.samples.is_empty() { vec!["main :: () { }".to_string()] } else { acc.samples.clone() });
    report.set(
        "rule",
        "states = complete in-process compilations (lex..infer, codegen when error free) in supervised worker processes; \
         transitions = compilations + diagnostics rendered; an outcome is a distinct diagnostic kind",
    );
    report.assumptions = vec![
        "in-process pipeline mirrors compile_file of the CLI with fake_file_system = true (as the repository's own tests do); the CLI-driven checks cover the real file system path".into(),
        "a timeout of an input that contains comptime/loop/while is user code running in the comptime JIT and is counted as inconclusive, not reported".into(),
    ];
    report.failures = if property == "C07" { acc.c07_failures } else { acc.failures };
    report.finish()
}
