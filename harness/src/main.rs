//! capy-verif: bounded-exhaustive model checking engines that link the real capy crates.
//! See /verif/DESIGN.md. Usage: capy-verif <engine> [quick|thorough]

mod common;
mod corpus;
mod front;
mod front_mc;
mod layout_mc;
mod lex_mc;
mod linecol_mc;
mod mangle_mc;
mod parse_mc;
mod prec_mc;
mod replay;
mod topo_mc;
mod tyrel_mc;
mod tyuni;

fn main() {
    let argv: Vec<String> = std::env::args().collect();
    if argv.len() < 2 {
        eprintln!("usage: capy-verif <engine> [quick|thorough]");
        std::process::exit(2);
    }
    common::install_panic_hook();
    // worker / child entry points first (no thread pool needed)
    match argv[1].as_str() {
        "front-worker" => front::worker_main(),
        "parse-pump-child" => parse_mc::pump_child(&argv[2..]),
        "layout-child" => layout_mc::child(&argv[2..]),
        _ => {}
    }
    rayon::ThreadPoolBuilder::new()
        .num_threads(16)
        .stack_size(64 << 20)
        .build_global()
        .unwrap();
    let args = common::parse_args(&argv[2..]);
    match argv[1].as_str() {
        "lex-mc" => lex_mc::run(&args),
        "parse-mc" => parse_mc::run(&args),
        "linecol-mc" => linecol_mc::run(&args),
        "front-mc" => front_mc::run(&args, "C06"),
        "unsafe-mc" => front_mc::run(&args, "C07"),
        "topo-mc" => topo_mc::run(&args),
        "mangle-mc" => mangle_mc::run(&args),
        "tyrel-mc" => tyrel_mc::run(&args),
        "prec-mc" => prec_mc::run(&args),
        "layout-mc" => layout_mc::run(&args),
        "replay" => replay::run(&argv[2]),
        other => {
            eprintln!("unknown engine {other}");
            std::process::exit(2);
        }
    }
}
