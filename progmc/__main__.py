"""python3 -m progmc <ID> quick|thorough  |  python3 -m progmc replay <file>"""
import importlib
import os
import sys

from . import core


def main():
    if len(sys.argv) < 3:
        print(__doc__)
        sys.exit(2)
    if sys.argv[1] == "replay":
        core.replay(sys.argv[2])
    prop, tier = sys.argv[1], sys.argv[2]
    seed = int(os.environ.get("VERIF_SEED", "0") or 0)
    try:
        mod = importlib.import_module(f"progmc.{prop.lower()}")
    except ModuleNotFoundError:
        print(f"no engine for {prop}")
        sys.exit(2)
    mod.run(tier, seed)


if __name__ == "__main__":
    main()
