"""C18 – runtime reflection and type values describe the code actually generated.

For every type of a universe (the C02 universe: scalars, byte structs, mixed structs, enums,
optionals, error unions, arrays, nestings; plus pointers, slices, distinct types) the program asks
core.meta for size / align / stride at runtime *and* inside `comptime`, and for the type info
(int width and signedness, float width, array length and element type, pointer mutability and
target, distinct sub type, struct member count / names / types / offsets, enum variant count and
discriminant offset, variant discriminants, optional / error-union discriminant offset and
is_non_zero) and prints it next to *address arithmetic on a real value* of the type (offset of
every field, distance of two array elements) in the same program.  All of it must equal a
reference layout calculator written from the documented representation rules.
Type values: `A == B` for every pair over a 40-type list must be true exactly when A and B denote
the same type; `any` made from a value reports that value's type.
"""
import time

from . import core, tyir, c02
from .core import Case
from .tyir import Arr, Enum, ErrU, Opt, Struct, Fresh

PRELUDE = '''core :: #mod("core");
meta :: core.meta;
ptr :: core.ptr;
printf :: (f: str, n: i64) extern;
strcmp :: (a: str, b: str) -> i32 extern;
mark :: (n: i64) { printf("\\n@%ld\\n", n); }
pr :: (v: i64) { printf("%ld ", v); }
pb :: (b: bool) { if b { printf("%ld ", 1); } else { printf("%ld ", 0); } }
'''


class Ptr(tyir.Ty):
    def __init__(self, sub, mutable):
        self.sub, self.mutable = sub, mutable

    def spell(self):
        return ("^mut " if self.mutable else "^") + self.sub.spell()

    def decls(self):
        return self.sub.decls()


class Slice(tyir.Ty):
    def __init__(self, sub):
        self.sub = sub

    def spell(self):
        return "[]" + self.sub.spell()

    def decls(self):
        return self.sub.decls()


class Distinct(tyir.Ty):
    def __init__(self, name, sub):
        self.name, self.sub = name, sub

    def spell(self):
        return self.name

    def decls(self):
        return self.sub.decls() + [(self.name, f"{self.name} :: distinct {self.sub.spell()};")]


class Named(tyir.Ty):
    """a primitive that has no tyir class: str, char, type, any, rawptr, usize, isize"""

    def __init__(self, name, size, align):
        self.name, self.size, self.align = name, size, align

    def spell(self):
        return self.name


def layout(T):
    """-> (size, align) from the documented rules (64-bit pointers)"""
    if isinstance(T, tyir.Int):
        size = T.bits // 8
        return size, min(size, 8)
    if isinstance(T, tyir.Bool):
        return 1, 1
    if isinstance(T, tyir.Float):
        return T.bits // 8, T.bits // 8
    if isinstance(T, Named):
        return T.size, T.align
    if isinstance(T, (Ptr,)):
        return 8, 8
    if isinstance(T, Slice):
        return 16, 8
    if isinstance(T, Distinct):
        return layout(T.sub)
    if isinstance(T, Arr):
        s, a = layout(T.sub)
        return T.n * stride(T.sub), a
    if isinstance(T, Struct):
        off, al = 0, 1
        for _, t in T.fields:
            s, a = layout(t)
            off = (off + a - 1) // a * a
            off += s
            al = max(al, a)
        return off, al
    if isinstance(T, Opt) and isinstance(T.sub, Ptr):
        return 8, 8
    payloads = sum_payloads(T)
    ms = max([layout(p)[0] for p in payloads if p is not None] or [0])
    ma = max([layout(p)[1] for p in payloads if p is not None] or [1])
    return ms + 1, ma


def sum_payloads(T):
    if isinstance(T, Enum):
        return [t for _, t, _ in T.variants]
    if isinstance(T, Opt):
        return [T.sub]
    return [T.err, T.sub]


def stride(T):
    s, a = layout(T)
    return (s + a - 1) // a * a


def offsets(T):
    off, res = 0, []
    for _, t in T.fields:
        s, a = layout(t)
        off = (off + a - 1) // a * a
        res.append(off)
        off += s
    return res


def has_value(T):
    """types for which tyir can build a value (address arithmetic, any)"""
    if isinstance(T, (Ptr, Slice, Distinct, Named)):
        return False
    if isinstance(T, Arr):
        return T.n > 0 and has_value(T.sub)
    if isinstance(T, Struct):
        return all(has_value(t) for _, t in T.fields)
    if isinstance(T, Enum):
        return all(t is None or has_value(t) for _, t, _ in T.variants)
    if isinstance(T, Opt):
        return not isinstance(T.sub, Opt) and has_value(T.sub)
    if isinstance(T, ErrU):
        return has_value(T.sub) and has_value(T.err)
    return True


def universe():
    tys = list(c02.universe(True))
    tys = [t for t in tys if not (isinstance(t, Struct) and t.name.startswith("B") and t.name[1:].isdigit() and int(t.name[1:]) not in (1, 3, 7, 8, 9, 16, 17, 33, 64))]
    M5 = next(t for t in tys if isinstance(t, Struct) and t.name == "M5")
    E2 = next(t for t in tys if isinstance(t, Enum) and t.name == "E2")
    extra = [Named("str", 8, 8), Named("char", 1, 1), Named("type", 4, 4), Named("usize", 8, 8), Named("isize", 8, 8),
             Named("rawptr", 8, 8), Named("any", 16, 8),
             Ptr(tyir.I32, False), Ptr(tyir.I32, True), Ptr(M5, False), Ptr(Ptr(tyir.U8, True), False),
             Slice(tyir.U8), Slice(M5), Slice(Opt(tyir.I32)),
             Distinct("DI", tyir.I32), Distinct("DM", M5), Distinct("DO", Opt(tyir.I64)), Distinct("DD", Distinct("DI", tyir.I32)),
             Opt(Ptr(tyir.I32, False)), Opt(Ptr(M5, True)), Arr(2, Ptr(tyir.I32, False)), Arr(0, tyir.I32), Arr(1, M5),
             Struct("SP", [("p", Ptr(tyir.U8, False)), ("o", Opt(Ptr(tyir.U8, False))), ("s", Slice(tyir.U8)), ("t", Named("type", 4, 4))]),
             Struct("SE", [("e", E2), ("x", tyir.U16), ("f", E2)])]
    # sum types nested in sum types, reflected *before* their inner types (they come first, and their inner types occur
    # nowhere else): the tables of reflection data are indexed by registration order
    PO = Struct("PO", [("a", Opt(tyir.F64)), ("b", Opt(tyir.I16))])
    EO = Enum("EO", [("A", Opt(tyir.U16), None), ("B", None, None)])
    ErrX = Enum("ErrX", [("X", tyir.U32, None)])
    first = [Opt(Opt(tyir.F32)), Opt(PO), Opt(Arr(2, Opt(tyir.I8))), Opt(EO), ErrU(ErrX, Opt(tyir.U32)), Arr(2, Opt(Opt(tyir.I16))),
             Opt(ErrU(ErrX, tyir.I64)), Struct("PP", [("p", Opt(Opt(tyir.BOOL))), ("q", tyir.U8)])]
    return first + tys + extra


def info_code(T, fresh):
    """capy code printing the type info of T, and the expected numbers"""
    q = fresh()
    sp = T.spell()
    out = []
    if isinstance(T, tyir.Int):
        code = f".Int => {{ pr(1); pr(i64.({q}.bit_width)); pb({q}.signed); }}"
        out = [1, T.bits, 1 if T.signed else 0]
    elif isinstance(T, tyir.Float):
        code = f".Float => {{ pr(2); pr(i64.({q}.bit_width)); }}"
        out = [2, T.bits]
    elif isinstance(T, tyir.Bool):
        code = ".Bool => { pr(3); }"
        out = [3]
    elif isinstance(T, Arr):
        code = f".Array => {{ pr(4); pr(i64.({q}.len)); pb({q}.sub_ty == {T.sub.spell()}); pr(i64.(meta.stride_of({q}.sub_ty))); }}"
        out = [4, T.n, 1, stride(T.sub)]
    elif isinstance(T, Slice):
        code = f".Slice => {{ pr(5); pb({q}.sub_ty == {T.sub.spell()}); }}"
        out = [5, 1]
    elif isinstance(T, Ptr):
        code = f".Pointer => {{ pr(6); pb({q}.sub_ty == {T.sub.spell()}); pb({q}.mutable); }}"
        out = [6, 1, 1 if T.mutable else 0]
    elif isinstance(T, Distinct):
        code = f".Distinct => {{ pr(7); pb({q}.sub_ty == {T.sub.spell()}); pr(i64.(meta.size_of({q}.sub_ty))); }}"
        out = [7, 1, layout(T.sub)[0]]
    elif isinstance(T, Struct):
        parts = [f"pr(8); pr(i64.({q}.members.len));"]
        out = [8, len(T.fields)]
        for i, ((n, t), off) in enumerate(zip(T.fields, offsets(T))):
            parts.append(f'pr(i64.({q}.members[{i}].offset)); pb({q}.members[{i}].ty == {t.spell()}); pr(i64.(strcmp({q}.members[{i}].name, "{n}")));')
            out += [off, 1, 0]
        code = f".Struct => {{ {' '.join(parts)} }}"
    elif isinstance(T, Enum):
        parts = [f"pr(9); pr(i64.({q}.variants.len)); pr(i64.({q}.discriminant_offset));"]
        out = [9, len(T.variants), layout(T)[0] - 1]
        disc = 0
        for i, (n, t, d) in enumerate(T.variants):
            if d is not None:
                disc = d
            q2 = fresh()
            parts.append(f"pb({q}.variants[{i}] == {sp}.{n}); switch {q2} in meta.get_type_info({q}.variants[{i}]) {{ "
                         f".Variant => {{ pr(i64.({q2}.discriminant)); pr(i64.(meta.size_of({q2}.sub_ty))); }}, _ => {{ pr(-1); }} }}")
            out += [1, disc, layout(t)[0] if t is not None else 0]
            disc += 1
        code = f".Enum => {{ {' '.join(parts)} }}"
    elif isinstance(T, Opt):
        nz = isinstance(T.sub, Ptr)
        code = (f".Optional => {{ pr(10); pb({q}.sub_ty == {T.sub.spell()}); pb({q}.is_non_zero); "
                + ("" if nz else f"pr(i64.({q}.discriminant_offset)); ") + "}")
        out = [10, 1, 1 if nz else 0] + ([] if nz else [layout(T)[0] - 1])
    elif isinstance(T, ErrU):
        code = (f".Error_Union => {{ pr(11); pb({q}.error_ty == {T.err.spell()}); pb({q}.payload_ty == {T.sub.spell()}); "
                f"pr(i64.({q}.discriminant_offset)); }}")
        out = [11, 1, 1, layout(T)[0] - 1]
    else:
        tag = {"str": ".String", "char": ".Char", "type": ".Meta_Type", "any": ".Any", "rawptr": ".Raw_Ptr", "usize": ".Int", "isize": ".Int"}[T.name]
        if tag == ".Int":
            code = f".Int => {{ pr(1); pr(i64.({q}.bit_width)); pb({q}.signed); }}"
            out = [1, 64, 1 if T.name == "isize" else 0]
        else:
            code = f"{tag} => {{ pr(12); }}"
            out = [12]
    return f"switch {q} in meta.get_type_info({sp}) {{ {code}, _ => {{ pr(-99); }} }}", out


def make_case(T, idx):
    fresh = Fresh(f"r{idx}x")
    sp = T.spell()
    size, align = layout(T)
    body = []
    out = []
    body.append(f"pr(i64.(meta.size_of({sp}))); pr(i64.(meta.align_of({sp}))); pr(i64.(meta.stride_of({sp})));")
    out += [size, align, stride(T)]
    body.append(f"cs{idx} :: comptime {{ meta.size_of({sp}) * 10000 + meta.align_of({sp}) * 100 + meta.stride_of({sp}) }}; pr(i64.(cs{idx}));")
    out.append(size * 10000 + align * 100 + stride(T))
    code, o = info_code(T, fresh)
    body.append(code)
    out += o
    if has_value(T):
        v = T.val(idx + 5)
        body.append(f"v : {sp} = {T.lit(v)};")
        body.append(f"an : any = v; pb(an.ty == {sp});")
        out.append(1)
        if isinstance(T, Struct):
            body.append("base := ptr.to_raw(^v);")
            for (n, t), off in zip(T.fields, offsets(T)):
                body.append(f"pr(i64.(ptr.to_raw(^v.{n}) - base));")
                out.append(off)
        if isinstance(T, Arr) and T.n >= 2:
            body.append("pr(i64.(ptr.to_raw(^v[1]) - ptr.to_raw(^v[0])));")
            out.append(stride(T.sub))
        # an array of two of them: the element distance is the stride
        body.append(f"two : [2]{sp} = {sp}.[{T.lit(v)}, {T.lit(v)}]; pr(i64.(ptr.to_raw(^two[1]) - ptr.to_raw(^two[0])));")
        out.append(stride(T))
    return Case(f"info/{sp}", "\n".join(body), "".join(f"{x} " for x in out))


def equality_cases(tys):
    sel = []
    seen = set()
    for t in tys:
        if t.spell() not in seen:
            seen.add(t.spell())
            sel.append(t)
    sel = [t for t in sel if not (isinstance(t, Struct) and t.name.startswith("B"))]
    # scalars, every primitive name, pointers / slices / distincts, and a selection of the aggregates
    prim = [t for t in sel if isinstance(t, (tyir.Int, tyir.Bool, tyir.Float, Named, Ptr, Slice, Distinct))]
    rest = [t for t in sel if t not in prim]
    sel = prim + rest[::3]
    cases = []
    for i, A in enumerate(sel):
        body = []
        out = []
        for B in sel:
            body.append(f"pb({A.spell()} == {B.spell()});")
            out.append(1 if A.spell() == B.spell() else 0)
        cases.append(Case(f"equal/{A.spell()}", " ".join(body), "".join(f"{x} " for x in out), meta={"row": A.spell(), "cols": [b.spell() for b in sel]}))
    return cases


def explains(model, m):
    if model == "isize-is-i64":
        if not m.case.key.startswith("equal/") or m.kind != "wrong-output":
            return False
        cols = m.case.meta["cols"]
        exp = m.case.expected.split()
        got = (m.observed.get("out") or "").split()
        if len(got) != len(exp):
            return False
        for c, e, g in zip(cols, exp, got):
            if e != g and {m.case.meta["row"], c} not in ({"isize", "i64"}, {"usize", "u64"}):
                return False
        return True
    return False


def run(tier, seed):
    started = time.time()
    tys = universe()
    decl_tys = [t for t in tys if hasattr(t, "decls")]
    prelude = PRELUDE + tyir.all_decls(decl_tys) + "\n"
    cases = [make_case(T, i) for i, T in enumerate(tys)]
    eq = equality_cases(tys)
    runner = core.Runner("c18", batch_size=25, prelude=prelude)
    mism = runner.run(cases + eq)
    coverage = {
        "states": len(cases) + len(eq),
        "transitions": sum(len(c.expected.split()) for c in cases + eq),
        "traces_validated_against_impl": len(cases) + len(eq),
        "exhaustive": True,
        "rule": "a case = one type (reflection at runtime and in comptime vs address arithmetic vs the reference layout) or one row of the type-equality matrix; "
                "every case is compiled with the real core module by the real CLI and executed",
        "bounds_completed": {"types": len(tys), "equality_matrix": f"{len(eq)} x {len(eq)}",
                             "reflected": ["size_of", "align_of", "stride_of", "comptime size/align/stride", "type info per kind", "member offsets vs address arithmetic",
                                           "element stride vs address arithmetic", "any.ty"]},
        "distinct_outcomes": len({c.expected for c in cases}),
        "compilations": runner.compiles,
        "samples": [{"case": c.key, "body": c.body[:500], "expected": c.expected} for c in (cases[0], cases[len(cases) // 2], cases[-1])],
    }
    core.finish("C18", tier, seed, started, coverage, mism, explains, assumptions=[
        "64-bit host only; the reference layout calculator is written from the documented representation rules (C17)",
    ])
