"""A small typed IR for Capy data types, shared by the program-level engines.

Every type knows how to
  * spell itself and the declarations it needs,
  * produce the k-th deterministic value (a plain Python structure) – `val(seed, shape)`,
  * spell a value as a Capy expression of exactly that type – `lit(v)`,
  * flatten a value into the list of integers a program prints for it – `leaves(v)`  (the model),
  * emit the Capy statements that print the same list for an expression – `show(expr, fresh)`.

Model values:  int | bool | list (array) | dict (struct) | (variant_name, payload|None) (enum)
               | ("some", v) / ("nil",) (optional) | ("ok", v) / ("err", enum value) (error union)
"""
import itertools


def _mix(seed):
    return (seed * 2654435761 + 0x9E3779B9) & 0xFFFFFFFFFFFF


class Fresh:
    """fresh names for switch arguments (a switch argument's name must be unique per function)"""

    def __init__(self, prefix="q"):
        self.n = 0
        self.prefix = prefix

    def __call__(self):
        self.n += 1
        return f"{self.prefix}{self.n}"


class Ty:
    def decls(self):
        """[(name, text)] dependencies first"""
        return []

    def shapes(self):
        return [None]

    def first_leaf(self):
        """(path suffix, leaf type) of the first scalar reachable by field/element steps, or None"""
        return None

    def size_hint(self):
        return 8


class Int(Ty):
    def __init__(self, name, bits, signed):
        self.name, self.bits, self.signed = name, bits, signed

    def spell(self):
        return self.name

    def val(self, seed, shape=None):
        hi = 1 << (min(self.bits, 63) - (1 if self.signed or self.bits >= 64 else 0))
        v = (_mix(seed) >> 5) % hi
        if v == 0:
            v = 1 + seed % (hi - 1) if hi > 2 else 1
        if self.signed and seed % 3 == 1:
            v = -v
        return v

    def lit(self, v):
        return f"{self.name}.({v})"

    def leaves(self, v):
        return [v]

    def show(self, expr, fresh):
        return f"pr(i64.({expr}));"

    def first_leaf(self):
        return ("", self)

    def size_hint(self):
        return self.bits // 8


class Bool(Ty):
    def spell(self):
        return "bool"

    def val(self, seed, shape=None):
        return seed % 2 == 0

    def lit(self, v):
        return "true" if v else "false"

    def leaves(self, v):
        return [1 if v else 0]

    def show(self, expr, fresh):
        return f"pr(i64.({expr}));"

    def first_leaf(self):
        return ("", self)

    def size_hint(self):
        return 1


class Float(Ty):
    def __init__(self, bits):
        self.bits = bits
        self.name = f"f{bits}"

    def spell(self):
        return self.name

    def val(self, seed, shape=None):
        v = (_mix(seed) >> 7) % 30000 + 1
        return -v if seed % 3 == 1 else v

    def lit(self, v):
        return f"{self.name}.({v})"

    def leaves(self, v):
        return [v]

    def show(self, expr, fresh):
        return f"pr(i64.({expr}));"

    def first_leaf(self):
        return ("", self)

    def size_hint(self):
        return self.bits // 8


class Arr(Ty):
    def __init__(self, n, sub):
        self.n, self.sub = n, sub

    def spell(self):
        return f"[{self.n}]{self.sub.spell()}"

    def decls(self):
        return self.sub.decls()

    def val(self, seed, shape=None):
        return [self.sub.val(seed * 7 + i + 1) for i in range(self.n)]

    def lit(self, v):
        return f"{self.sub.spell()}.[" + ", ".join(self.sub.lit(x) for x in v) + "]"

    def leaves(self, v):
        return [l for x in v for l in self.sub.leaves(x)]

    def show(self, expr, fresh):
        return " ".join(self.sub.show(f"{expr}[{i}]", fresh) for i in range(self.n))

    def first_leaf(self):
        r = self.sub.first_leaf()
        return None if r is None else ("[0]" + r[0], r[1])

    def size_hint(self):
        return self.n * self.sub.size_hint()


class Struct(Ty):
    def __init__(self, name, fields):
        self.name, self.fields = name, fields

    def spell(self):
        return self.name

    def decls(self):
        d = []
        for _, t in self.fields:
            d += t.decls()
        d.append((self.name, f"{self.name} :: struct {{ " + ", ".join(f"{n}: {t.spell()}" for n, t in self.fields) + " };"))
        return d

    def val(self, seed, shape=None):
        return {n: t.val(seed * 5 + i + 2) for i, (n, t) in enumerate(self.fields)}

    def lit(self, v):
        return f"{self.name}.{{ " + ", ".join(f"{n} = {t.lit(v[n])}" for n, t in self.fields) + " }"

    def lit_anon_reversed(self, v):
        return ".{ " + ", ".join(f"{n} = {t.lit(v[n])}" for n, t in reversed(self.fields)) + " }"

    def leaves(self, v):
        return [l for n, t in self.fields for l in t.leaves(v[n])]

    def show(self, expr, fresh):
        return " ".join(t.show(f"{expr}.{n}", fresh) for n, t in self.fields)

    def first_leaf(self):
        for n, t in self.fields:
            r = t.first_leaf()
            if r is not None:
                return ("." + n + r[0], r[1])
        return None

    def size_hint(self):
        return sum(t.size_hint() for _, t in self.fields)


class Enum(Ty):
    """variants: [(name, payload type or None, discriminant or None)]"""

    def __init__(self, name, variants):
        self.name, self.variants = name, variants

    def spell(self):
        return self.name

    def decls(self):
        d = []
        for _, t, _ in self.variants:
            if t is not None:
                d += t.decls()
        parts = []
        for n, t, disc in self.variants:
            s = n + (f": {t.spell()}" if t is not None else "")
            if disc is not None:
                s += f" | {disc}"
            parts.append(s)
        d.append((self.name, f"{self.name} :: enum {{ " + ", ".join(parts) + " };"))
        return d

    def shapes(self):
        return [n for n, _, _ in self.variants]

    def val(self, seed, shape=None):
        if shape is None:
            shape = self.variants[seed % len(self.variants)][0]
        t = next(t for n, t, _ in self.variants if n == shape)
        return (shape, None if t is None else t.val(seed * 3 + 1))

    def lit(self, v):
        t = next(t for n, t, _ in self.variants if n == v[0])
        if t is None:
            return f"{self.name}.{v[0]}"
        return f"{self.name}.{v[0]}.({t.lit(v[1])})"

    def leaves(self, v):
        idx = [n for n, _, _ in self.variants].index(v[0])
        t = self.variants[idx][1]
        return [idx] + ([] if t is None else t.leaves(v[1]))

    def show(self, expr, fresh):
        q = fresh()
        arms = []
        for i, (n, t, _) in enumerate(self.variants):
            body = f"pr({i});"
            if t is not None:
                body += " " + t.show(f"{t.spell()}.({q})", fresh)
            arms.append(f".{n} => {{ {body} }}")
        return f"switch {q} in {expr} {{ " + ", ".join(arms) + " }"

    def size_hint(self):
        return 1 + max((t.size_hint() if t else 0) for _, t, _ in self.variants)


class Opt(Ty):
    def __init__(self, sub):
        self.sub = sub

    def spell(self):
        return "?" + self.sub.spell()

    def decls(self):
        return self.sub.decls()

    def shapes(self):
        return ["some", "nil"]

    def val(self, seed, shape=None):
        if shape is None:
            shape = "nil" if seed % 3 == 0 else "some"
        return ("nil",) if shape == "nil" else ("some", self.sub.val(seed * 3 + 2))

    def lit(self, v):
        return "nil" if v[0] == "nil" else self.sub.lit(v[1])

    def leaves(self, v):
        return [0] if v[0] == "nil" else [1] + self.sub.leaves(v[1])

    def show(self, expr, fresh):
        q = fresh()
        return (f"switch {q} in {expr} {{ {self.sub.spell()} => {{ pr(1); {self.sub.show(q, fresh)} }}, "
                f"nil => {{ pr(0); }} }}")

    def size_hint(self):
        return 1 + self.sub.size_hint()


class ErrU(Ty):
    def __init__(self, err, sub):
        self.err, self.sub = err, sub

    def spell(self):
        return f"{self.err.spell()}!{self.sub.spell()}"

    def decls(self):
        return self.err.decls() + self.sub.decls()

    def shapes(self):
        return ["ok"] + ["err:" + s for s in self.err.shapes()]

    def val(self, seed, shape=None):
        if shape is None:
            shape = self.shapes()[seed % len(self.shapes())]
        if shape == "ok":
            return ("ok", self.sub.val(seed * 3 + 2))
        return ("err", self.err.val(seed * 3 + 1, shape[4:]))

    def lit(self, v):
        return self.sub.lit(v[1]) if v[0] == "ok" else self.err.lit(v[1])

    def leaves(self, v):
        return [1] + self.sub.leaves(v[1]) if v[0] == "ok" else [0] + self.err.leaves(v[1])

    def show(self, expr, fresh):
        q = fresh()
        return (f"switch {q} in {expr} {{ {self.sub.spell()} => {{ pr(1); {self.sub.show(q, fresh)} }}, "
                f"{self.err.spell()} => {{ pr(0); {self.err.show(q, fresh)} }} }}")

    def size_hint(self):
        return 1 + max(self.err.size_hint(), self.sub.size_hint())


U8, U16, U32, U64 = Int("u8", 8, False), Int("u16", 16, False), Int("u32", 32, False), Int("u64", 64, False)
I8, I16, I32, I64 = Int("i8", 8, True), Int("i16", 16, True), Int("i32", 32, True), Int("i64", 64, True)
U128, I128 = Int("u128", 128, False), Int("i128", 128, True)
USIZE, ISIZE = Int("usize", 64, False), Int("isize", 64, True)
BOOL = Bool()
F32, F64 = Float(32), Float(64)


def mutants(T, v):
    """values of type T that differ from v in exactly one leaf (or in the variant)"""
    if isinstance(T, Int):
        hi = (1 << (min(T.bits, 63) - 1)) - 1
        yield v + 1 if v < hi else v - 1
    elif isinstance(T, Bool):
        yield not v
    elif isinstance(T, Float):
        yield v + 1
    elif isinstance(T, Arr):
        for i in range(T.n):
            for m in mutants(T.sub, v[i]):
                yield v[:i] + [m] + v[i + 1:]
    elif isinstance(T, Struct):
        for n, t in T.fields:
            for m in mutants(t, v[n]):
                d = dict(v)
                d[n] = m
                yield d
    elif isinstance(T, Enum):
        t = next(t for n, t, _ in T.variants if n == v[0])
        if t is not None:
            for m in mutants(t, v[1]):
                yield (v[0], m)
        for n, _, _ in T.variants:
            if n != v[0]:
                yield T.val(17, n)
    elif isinstance(T, Opt):
        if v[0] == "some":
            for m in mutants(T.sub, v[1]):
                yield ("some", m)
            yield ("nil",)
        else:
            yield T.val(5, "some")
    elif isinstance(T, ErrU):
        if v[0] == "ok":
            for m in mutants(T.sub, v[1]):
                yield ("ok", m)
            yield T.val(5, "err:" + T.err.shapes()[0])
        else:
            for m in mutants(T.err, v[1]):
                yield ("err", m)
            yield T.val(5, "ok")


def all_decls(tys):
    seen = {}
    for t in tys:
        for name, text in t.decls():
            if name in seen:
                if seen[name] != text:
                    raise ValueError(f"two declarations for {name}")
                continue
            seen[name] = text
    return "\n".join(seen.values())


def fmt_leaves(ls):
    return "".join(f"{x} " for x in ls)
