"""C13 – distinct types, enum variants and named structs are nominal.

Universe: D1, D2 :: distinct i32; D3 :: distinct D1; DU :: distinct u8; E1, E2 identical enums and
their variants; S1, S2 identical structs; and nested wrappers of them ([2]T, ?T, ^T, T as struct field type).
For every ordered pair (expected nominal type, provided nominal type) and every context
(annotation, argument, return, assignment, struct field, array element, optional payload, binary + and ==):

    accepted  <=>  same nominal identity, or the provided value is a variant of the expected enum

plus: an untyped literal is accepted by every distinct integer type; explicit casts between a
distinct type and its underlying type are accepted and preserve the value (executed).
Pairs the statement does not decide (underlying -> distinct, anonymous struct -> named struct,
casts between two different distinct types) are not generated.
"""
import itertools
import time

from . import core
from .core import Case

BASE = '''printf :: (f: str, n: i64) extern;
mark :: (n: i64) { printf("\\n@%ld\\n", n); }
pr :: (v: i64) { printf("%ld ", v); }
D1 :: distinct i32;
D2 :: distinct i32;
D3 :: distinct D1;
DU :: distinct u8;
DW :: distinct u32;
DX :: distinct u64;
DI :: distinct i64;
E1 :: enum { A: i32, B };
E2 :: enum { A: i32, B };
S1 :: struct { x: i32 };
S2 :: struct { x: i32 };
'''

# nominal types: name -> (identity, expression that yields a value of exactly that type, setup statements)
VALUES = {
    "D1": ("D1", "d1v"),
    "D2": ("D2", "d2v"),
    "D3": ("D3", "d3v"),
    "DU": ("DU", "duv"),
    "E1": ("E1", "e1v"),
    "E2": ("E2", "e2v"),
    "E1.A": ("E1.A", "e1a"),
    "E2.A": ("E2.A", "e2a"),
    "E1.B": ("E1.B", "e1b"),
    "E2.B": ("E2.B", "e2b"),
    "S1": ("S1", "s1v"),
    "S2": ("S2", "s2v"),
}
SETUP = '''d1v : D1 = 7; d2v : D2 = 8; d3v : D3 = 9; duv : DU = 10;
e1v : E1 = E1.A.(3); e2v : E2 = E2.A.(4);
e1a := E1.A.(5); e2a := E2.A.(6); e1b := E1.B; e2b := E2.B;
s1v := S1.{ x = 11 }; s2v := S2.{ x = 12 };'''

EXPECTED_TYPES = ["D1", "D2", "D3", "DU", "E1", "E2", "E1.A", "E2.A", "S1", "S2", "i32", "u8", "i64"]


def accepts(expected, provided):
    """the statement's rule for a provided value of nominal type `provided`"""
    if expected == provided:
        return True
    if provided.startswith(expected + ".") and expected in ("E1", "E2"):
        return True  # variant -> own enum
    return False


WRAPS = {
    "plain": lambda t: t,
    "arr": lambda t: f"[2]{t}",
    "opt": lambda t: f"?{t}",
}


def helper_decls(uid, T):
    return (f"arg_{uid} :: (v: {T}) {{ }}\n"
            f"W_{uid} :: struct {{ f: {T}, g: u8 }};")


def contexts(uid, T, pexpr, own):
    """-> [(context name, extra decls, statements)]; `own` = an expression of type T (or None)"""
    res = [
        ("annot", "", f"x : {T} = {pexpr};"),
        ("arg", "", f"arg_{uid}({pexpr});"),
        ("ret", f"ret_{uid} :: () -> {T} {{\n{SETUP}\n{pexpr}\n}}", f"y := ret_{uid}();"),
        ("field", "", f"w := W_{uid}.{{ f = {pexpr}, g = 1 }};"),
        ("optpayload", "", f"o : ?{T} = {pexpr};"),
    ]
    if own:
        res += [
            ("assign", "", f"x : {T} = {own}; x = {pexpr};"),
            ("arrelem", "", f"arr : [2]{T} = .[{own}, {pexpr}];"),
        ]
    return res


def gen(quick):
    cases = []
    uid = 0
    for T in EXPECTED_TYPES:
        own = VALUES[T][1] if T in VALUES else {"i32": "iv", "u8": "uv", "i64": "lv"}[T]
        for P, (pid, pexpr) in VALUES.items():
            ok = accepts(T, P)
            for cname, decls, stmt in contexts("UID", T, pexpr, own):
                uid += 1
                decls_all = (helper_decls("UID", T) + ("\n" + decls if decls else "")).replace("UID", str(uid))
                body = SETUP + "\niv : i32 = 1; uv : u8 = 2; lv : i64 = 3;\n" + stmt.replace("UID", str(uid))
                cases.append(Case(f"{cname}/{T}<-{P}", body, "" if ok else None, decls=decls_all, accept=ok))
    # binary operators between two nominal values
    for op in ("+", "=="):
        for (A, (_, ae)), (B, (_, be)) in itertools.product(VALUES.items(), repeat=2):
            if not (A.startswith("D") and B.startswith("D")):
                continue
            ok = A == B
            body = SETUP + f"\nr := {ae} {op} {be};"
            cases.append(Case(f"binop/{A}{op}{B}", body, "" if ok else None, accept=ok))
    # a distinct value mixed with a *typed* value of its own underlying type: binary operators (both orders), compound
    # assignment (both directions) and if/else branches all need a common type, and there is none
    for D, dv, U, uv in (("D1", "d1v", "i32", "iv"), ("D3", "d3v", "i32", "iv"), ("DU", "duv", "u8", "uv"), ("DW", "dwv", "u32", "wv"),
                         ("DX", "dxv", "u64", "xv"), ("DI", "div", "i64", "lv")):
        extra = "dwv : DW = 5; wv : u32 = 6; dxv : DX = 7; xv : u64 = 8; div : DI = 9;"
        pre = SETUP + "\niv : i32 = 1; uv : u8 = 2; lv : i64 = 3;\n" + extra + "\n"
        for op in ("+", "*", "==", "<"):
            cases.append(Case(f"mix/{D}{op}{U}", pre + f"r := {dv} {op} {uv};", None, accept=False))
            cases.append(Case(f"mix/{U}{op}{D}", pre + f"r := {uv} {op} {dv};", None, accept=False))
        cases.append(Case(f"mix/{U}+={D}", pre + f"t : {U} = {uv}; t += {dv};", None, accept=False))
        cases.append(Case(f"mix/{D}+={U}", pre + f"t : {D} = {dv}; t += {uv};", None, accept=False))
        cases.append(Case(f"mix/if-{D}-else-{U}", pre + f"r := if iv == 1 {{ {dv} }} else {{ {uv} }};", None, accept=False))
        cases.append(Case(f"mix/if-{U}-else-{D}", pre + f"r := if iv == 1 {{ {uv} }} else {{ {dv} }};", None, accept=False))
        # the same operations on two values of the distinct type itself are fine
        cases.append(Case(f"mix/{D}+{D}", pre + f"r : {D} = {dv} + {dv}; t : {D} = {dv}; t += {dv}; q := if iv == 1 {{ {dv} }} else {{ t }};", ""))
    # untyped literals into distinct integer types; explicit casts distinct <-> underlying preserve the value
    for D, under, lit in (("D1", "i32", 41), ("D2", "i32", 42), ("D3", "i32", 43), ("DU", "u8", 200)):
        cases.append(Case(f"literal/{D}", f"x : {D} = {lit}; y : {D} = x + 1; pr(i64.({under}.(y)));", f"{lit + 1} "))
    cast_cases = [
        ("D1", "i32", "d : D1 = 77; i := i32.(d); pr(i64.(i)); e := D1.(i + 1); pr(i64.(i32.(e)));", "77 78 "),
        ("D2", "i32", "i : i32 = -5; d := D2.(i); pr(i64.(i32.(d)));", "-5 "),
        ("DU", "u8", "d : DU = 250; u := u8.(d); pr(i64.(u)); e := DU.(u + 3); pr(i64.(u8.(e)));", "250 253 "),
        ("D3", "D1", "d : D1 = 9; t := D3.(d); b := D1.(t); pr(i64.(i32.(b)));", "9 "),
    ]
    for D, U, body, exp in cast_cases:
        cases.append(Case(f"cast/{D}<->{U}", body, exp))
    # structural copies stay usable under their own type
    cases.append(Case("same/S1", "s : S1 = S1.{ x = 5 }; t : S1 = s; pr(i64.(t.x));", "5 "))
    cases.append(Case("same/E1", "e : E1 = E1.A.(6); f : E1 = e; switch q in f { .A => pr(i64.(i32.(q))), .B => pr(-1) }", "6 "))
    return cases


def run(tier, seed):
    started = time.time()
    cases = gen(tier == "quick")
    runner = core.Runner("c13", batch_size=60, prelude=BASE)
    mism = runner.run(cases)
    n_acc = sum(1 for c in cases if c.accept)
    coverage = {
        "states": len(cases),
        "transitions": len(cases),
        "traces_validated_against_impl": len(cases),
        "exhaustive": True,
        "rule": "a case = (context, expected type, provided nominal value); each compiled by the real CLI; accepted ones are executed",
        "bounds_completed": {"expected_types": len(EXPECTED_TYPES), "provided_nominal_values": len(VALUES),
                             "contexts": ["annot", "arg", "ret", "field", "optpayload", "assign", "arrelem", "binop + ==", "literal", "cast"],
                             "expected_accept": n_acc, "expected_reject": len(cases) - n_acc},
        "distinct_outcomes": 2 + len({c.expected for c in cases if c.expected}),
        "compilations": runner.compiles,
        "samples": [{"case": c.key, "body": c.body[-200:], "accept": c.accept} for c in (cases[0], cases[len(cases) // 2], cases[-1])],
    }
    if n_acc < 30 or len(cases) - n_acc < 100:
        core.machinery_failure("vacuous run")
    core.finish("C13", tier, seed, started, coverage, mism, lambda model, m: model == "variant-mismatch-in-tail-panics" and "is not weak replaceable by" in (m.detail or ""), assumptions=[
        "underlying -> distinct, anonymous struct -> named struct and casts between two different distinct types are not judged",
    ])
