"""C02 – writing one value never changes any other value; aggregates are copied.

For every type T of a universe (every scalar, byte-array structs of every size 1..64, mixed-alignment
structs incl. size < stride, enums, optionals, error unions, arrays, nestings) x every placement
(local between guard locals, field between guard fields, middle element of a [3]T) x every write
kind (plain store, copy from another variable which is then overwritten, store through ^mut,
return by value, pass + return by value between guard arguments, partial mutation of a copy,
anonymous->named struct with reordered fields, array element-type cast) x every top-level shape of
the written value (each enum variant, some/nil, ok/each error): the program prints the guards, the
written place and every copy, leaf by leaf; the model is plain value semantics.
"""
import itertools
import time

from . import core, tyir
from .core import Case
from .tyir import (Arr, Enum, ErrU, Opt, Struct, U8, U16, U32, U64, I8, I16, I32, I64, U128, I128, BOOL, F32, F64,
                   Fresh, fmt_leaves)

BASE = '''printf :: (f: str, n: i64) extern;
mark :: (n: i64) { printf("\\n@%ld\\n", n); }
pr :: (v: i64) { printf("%ld ", v); }
'''


def universe(quick):
    tys = [U8, U16, U32, U64, I8, I16, I32, I64, BOOL, F32, F64, U128, I128]
    sizes = range(1, 65)
    byte_structs = [Struct(f"B{n}", [("d", Arr(n, U8))]) for n in sizes]
    tys += byte_structs
    M5 = Struct("M5", [("a", U64), ("b", U8)])
    mixed = [
        Struct("M1", [("a", U8), ("b", U16)]),
        Struct("M2", [("a", U8), ("b", U32)]),
        Struct("M3", [("a", U8), ("b", U64)]),
        Struct("M4", [("a", U32), ("b", U8)]),
        M5,
        Struct("M6", [("a", U16), ("b", U8), ("c", U8)]),
        Struct("M7", [("a", U64), ("b", U64), ("c", U8)]),
        Struct("M8", [("a", U32), ("b", U32), ("c", U32)]),
        Struct("M9", [("a", U64), ("b", U32)]),
        Struct("M10", [("a", M5), ("b", U8)]),
        Struct("M11", [("a", Arr(3, U16)), ("b", U8)]),
        Struct("M12", [("a", F32), ("b", F32)]),
        Struct("M13", [("a", F64), ("b", U8)]),
        Struct("M14", [("a", F32), ("b", I32), ("c", F64)]),
        Struct("M15", [("a", I128), ("b", U8)]),
        Struct("M16", [("a", U8), ("b", U8), ("c", U8)]),
        Struct("M17", [("a", U64), ("b", U64), ("c", U64)]),
        Struct("M18", [("a", BOOL), ("b", I16), ("c", BOOL)]),
    ]
    tys += mixed
    E2 = Enum("E2", [("A", I32, None), ("B", None, None)])
    Err = Enum("Err", [("Bad", U8, None), ("Worse", None, None)])
    Err2 = Enum("Err2", [("X", U64, None)])
    enums = [
        Enum("E1", [("A", U8, None)]),
        E2,
        Enum("E3", [("A", U8, None), ("B", I64, None), ("C", None, None)]),
        Enum("E4", [("A", M5, None), ("B", U8, 9), ("C", None, None)]),
        Enum("E5", [("A", byte_structs[2], None), ("B", None, 200)]),
        Enum("E6", [("A", None, None), ("B", None, None), ("C", None, None)]),
        Enum("E7", [("A", U64, None), ("B", M5, None)]),
    ]
    tys += enums
    tys += [Opt(U8), Opt(I32), Opt(U64), Opt(M5), Opt(E2), Opt(BOOL), Opt(byte_structs[6])]
    tys += [ErrU(Err, U8), ErrU(Err, I64), ErrU(Err, M5), ErrU(Err, E2), ErrU(Err2, U8), ErrU(Err2, byte_structs[4])]
    tys += [Arr(3, U8), Arr(2, U16), Arr(5, U8), Arr(2, M5), Arr(2, Opt(I32)), Arr(2, E2), Arr(3, Arr(2, U8)),
            Arr(2, ErrU(Err, I64))]
    tys += [
        Struct("N1", [("a", Opt(I32)), ("b", U8)]),
        Struct("N2", [("a", enums[2]), ("b", U8)]),
        Struct("N3", [("a", ErrU(Err, I64)), ("b", U8)]),
        Struct("N4", [("a", U8), ("b", Opt(M5)), ("c", U8)]),
        Struct("N5", [("a", E2), ("b", E2), ("c", U8)]),
    ]
    return tys


G = {"g1": 0x5A5A5A5A5A5A5A5, "g2": 0xA5, "g3": 0x3C3C3C3C3C3C3C3, "h1": 0x1111111111111111, "h2": 0x2222222222222222}

_uid = itertools.count()


def wrapper(T, idx):
    return Struct(f"W{idx}", [("g1", U8), ("v", T), ("g2", U8), ("g3", U64)])


def cast_source(T):
    """for arrays of ints: a wider/narrower element type to cast from"""
    if isinstance(T, Arr) and isinstance(T.sub, tyir.Int) and T.sub.bits <= 64:
        other = I64 if T.sub.bits < 64 else I32
        return Arr(T.n, other)
    return None


def make_cases(T, idx, quick):
    """-> list of Case for type T"""
    cases = []
    W = wrapper(T, idx)
    shapes = T.shapes()
    kinds = ["plain", "copy", "ptr", "ret", "idarg", "partial"]
    if isinstance(T, Struct):
        kinds.append("anon")
    if cast_source(T):
        kinds.append("arrcast")
    if self_literal(T, "L", None) is not None:
        kinds.append("selflit")
    kinds.append("selfcall")
    placements = ["local", "field", "elem"]
    if has_default(T):
        kinds.append("default")
    for placement, kind, shape in itertools.product(placements, kinds, shapes):
        if kind == "partial" and T.first_leaf() is None:
            continue
        if kind == "default" and (placement != "local" or shape != shapes[0]):
            continue
        seed = next(_uid) + 1
        v0 = T.val(seed * 11 + 1)
        v1 = T.val(seed * 11 + 2, shape)
        v2 = T.val(seed * 11 + 3)
        v3 = T.val(seed * 11 + 4)
        fresh = Fresh(f"q{idx}x")
        uid = f"t{idx}_{seed}"
        decls = []
        body = []
        out = []
        # placement
        if kind == "default":
            # `v : T;` stores the default (all-zero / nil) value
            body.append(f"g1 : u64 = {G['g1']}; g2 : u8 = {G['g2']}; v : {T.spell()}; g4 : u8 = {G['g2']}; g3 : u64 = {G['g3']};")
            body.append(f"pr(i64.(g4));")
            out.append(G["g2"])
            final = default_of(T)
            L = "v"
        elif placement == "local":
            body.append(f"g1 : u64 = {G['g1']}; v : {T.spell()} = {T.lit(v0)}; g2 : u8 = {G['g2']}; g3 : u64 = {G['g3']};")
            L = "v"
        elif placement == "field":
            body.append(f"w := {W.name}.{{ g1 = 77, v = {T.lit(v0)}, g2 = {G['g2']}, g3 = {G['g3']} }};")
            L = "w.v"
        else:
            body.append(f"a : [3]{T.spell()} = {T.spell()}.[{T.lit(v2)}, {T.lit(v0)}, {T.lit(v3)}];")
            L = "a[1]"
        extra_show = []  # (type, expr, model value)
        if kind != "default":
            final = v1
        if kind == "default":
            pass
        elif kind == "plain":
            body.append(f"{L} = {T.lit(v1)};")
        elif kind == "copy":
            body.append(f"t : {T.spell()} = {T.lit(v1)}; {L} = t; t = {T.lit(v2)};")
            extra_show.append((T, "t", v2))
        elif kind == "ptr":
            body.append(f"p := ^mut {L}; p^ = {T.lit(v1)};")
        elif kind == "ret":
            decls.append(f"mk_{uid} :: () -> {T.spell()} {{ {T.lit(v1)} }}")
            body.append(f"{L} = mk_{uid}();")
        elif kind == "idarg":
            f2 = Fresh(f"r{idx}x")
            decls.append(f"id_{uid} :: (h1: u64, x: {T.spell()}, h2: u64) -> {T.spell()} {{ pr(i64.(h1)); {T.show('x', f2)} pr(i64.(h2)); x }}")
            body.append(f"{L} = id_{uid}({G['h1']}, {T.lit(v1)}, {G['h2']});")
            out += [G["h1"]] + T.leaves(v1) + [G["h2"]]
        elif kind == "partial":
            path, leaf = T.first_leaf()
            newleaf = leaf.val(seed * 13 + 5)
            body.append(f"{L} = {T.lit(v1)}; t := {L}; t{path} = {leaf.lit(newleaf)};")
            tv = _set_path(T, v1, path, newleaf)
            extra_show.append((T, "t", tv))
        elif kind == "selflit":
            # a literal that reads the place it is assigned to (members rotated among members of the same type)
            src, final = self_literal(T, L, v1)
            body.append(f"{L} = {T.lit(v1)}; {L} = {src};")
        elif kind == "selfcall":
            # the place is both the argument and the destination of the result
            decls.append(f"sc_{uid} :: (x: {T.spell()}) -> {T.spell()} {{ r : {T.spell()} = {T.lit(v2)}; if {G['h1']} == 0 {{ return r; }} x }}")
            decls.append(f"sd_{uid} :: (x: {T.spell()}) -> {T.spell()} {{ r : {T.spell()} = {T.lit(v2)}; r }}")
            body.append(f"{L} = {T.lit(v1)}; {L} = sc_{uid}({L}); t := sd_{uid}({L});")
            extra_show.append((T, "t", v2))
        elif kind == "anon":
            body.append(f"an := {T.lit_anon_reversed(v1)}; {L} = an;")
        elif kind == "arrcast":
            src = cast_source(T)
            sv = [_fit(T.sub, x) for x in src.val(seed * 17 + 3)]
            body.append(f"src : {src.spell()} = {src.lit(sv)}; {L} = {T.spell()}.(src);")
            final = sv
            extra_show.append((src, "src", sv))
        # observation
        if placement == "local":
            body.append(f"pr(i64.(g1)); {T.show('v', fresh)} pr(i64.(g2)); pr(i64.(g3));")
            out += [G["g1"]] + T.leaves(final) + [G["g2"], G["g3"]]
        elif placement == "field":
            body.append(f"pr(i64.(w.g1)); {T.show('w.v', fresh)} pr(i64.(w.g2)); pr(i64.(w.g3));")
            out += [77] + T.leaves(final) + [G["g2"], G["g3"]]
        else:
            body.append(f"{T.show('a[0]', fresh)} {T.show('a[1]', fresh)} {T.show('a[2]', fresh)}")
            out += T.leaves(v2) + T.leaves(final) + T.leaves(v3)
        for t, e, mv in extra_show:
            body.append(t.show(e, fresh))
            out += t.leaves(mv)
        key = f"{T.spell()}/{placement}/{kind}/{shape}"
        cases.append(Case(key, "\n".join(body), fmt_leaves(out), decls="\n".join(decls),
                          meta={"type": T.spell(), "size_hint": T.size_hint()}))
    # values passed to a variadic parameter: the caller builds a temporary array of them (every element, the length, and
    # guards around the call are observed)
    for n in (1, 2, 3, 5):
        seed = next(_uid) + 1
        vals = [T.val(seed * 7 + j) for j in range(n)]
        uid = f"t{idx}_{seed}"
        f2 = Fresh(f"r{idx}x")
        decls = (f"va_{uid} :: (h1: u64, xs: ...{T.spell()}) {{ pr(i64.(h1)); pr(i64.(xs.len)); i : usize = 0; "
                 f"while i < xs.len {{ {T.show('xs[i]', f2)} i += 1; }} }}")
        body = (f"g1 : u64 = {G['g1']}; g2 : u8 = {G['g2']};\nva_{uid}({G['h1']}, " + ", ".join(T.lit(v) for v in vals) + ");\n"
                f"g3 : u64 = {G['g3']}; pr(i64.(g1)); pr(i64.(g2)); pr(i64.(g3));")
        out = [G["h1"], n]
        for v in vals:
            out += T.leaves(v)
        out += [G["g1"], G["g2"], G["g3"]]
        cases.append(Case(f"{T.spell()}/varargs/{n}", body, fmt_leaves(out), decls=decls, meta={"type": T.spell(), "size_hint": T.size_hint()}))
    return cases


def self_literal(T, L, v):
    """-> (source text of a literal of T whose members read L with same-typed members rotated, rotated model value) or None"""
    if isinstance(T, Arr) and T.n >= 2:
        src = f"{T.sub.spell()}.[" + ", ".join(f"{L}[{(i + 1) % T.n}]" for i in range(T.n)) + "]"
        return src, (None if v is None else [v[(i + 1) % T.n] for i in range(T.n)])
    if isinstance(T, Struct):
        groups = {}
        for n, t in T.fields:
            groups.setdefault(t.spell(), []).append(n)
        if not any(len(g) >= 2 for g in groups.values()):
            return None
        source_of = {}
        for g in groups.values():
            for i, n in enumerate(g):
                source_of[n] = g[(i + 1) % len(g)]
        src = f"{T.name}.{{ " + ", ".join(f"{n} = {L}.{source_of[n]}" for n, _ in T.fields) + " }"
        return src, (None if v is None else {n: v[source_of[n]] for n, _ in T.fields})
    return None


def has_default(T):
    if isinstance(T, (tyir.Int, tyir.Bool, tyir.Float, Opt)):
        return True
    if isinstance(T, Arr):
        return has_default(T.sub)
    if isinstance(T, Struct):
        return all(has_default(t) for _, t in T.fields)
    return False


def default_of(T):
    if isinstance(T, (tyir.Int, tyir.Float)):
        return 0
    if isinstance(T, tyir.Bool):
        return False
    if isinstance(T, Opt):
        return ("nil",)
    if isinstance(T, Arr):
        return [default_of(T.sub) for _ in range(T.n)]
    return {n: default_of(t) for n, t in T.fields}


def _fit(sub, x):
    """a value of the wider source element type that is representable in the target element type"""
    hi = 1 << (sub.bits - 1)
    v = abs(x) % hi
    if sub.signed and x < 0:
        v = -v
    return v


def _set_path(T, v, path, new):
    import copy
    v = copy.deepcopy(v)
    if path == "":
        return new
    cur_t, cur_v = T, v
    # walk the path
    toks = []
    i = 0
    while i < len(path):
        if path[i] == ".":
            j = i + 1
            while j < len(path) and path[j] not in ".[":
                j += 1
            toks.append(path[i + 1:j])
            i = j
        else:
            j = path.index("]", i)
            toks.append(int(path[i + 1:j]))
            i = j + 1
    for k, t in enumerate(toks):
        if k == len(toks) - 1:
            cur_v[t] = new
        else:
            cur_v = cur_v[t]
    return v


def run(tier, seed):
    started = time.time()
    quick = tier == "quick"
    tys = universe(quick)
    wrappers = [wrapper(T, i) for i, T in enumerate(tys)]
    prelude = BASE + tyir.all_decls(tys + wrappers) + "\n"
    cases = []
    for i, T in enumerate(tys):
        cs = make_cases(T, i, quick)
        if quick and T.spell().startswith("B") and isinstance(T, Struct) and T.name[1:].isdigit():
            # quick: every size keeps every placement with the plain, idarg and ret kinds
            cs = [c for c in cs if c.key.split("/")[2] in ("plain", "idarg", "ret", "copy") or c.key.split("/")[1] == "varargs" or c.key.split("/")[2] == "selflit"]
        cases += cs
    runner = core.Runner("c02", batch_size=60, prelude=prelude)
    mism = runner.run(cases)
    outcomes = {c.expected for c in cases}
    sizes = sorted({c.meta["size_hint"] for c in cases})
    coverage = {
        "states": len(cases),
        "transitions": sum(len(c.expected.split()) for c in cases),
        "traces_validated_against_impl": len(cases),
        "exhaustive": True,
        "rule": "a case = (type, placement, write kind, shape of the written value); states = cases compiled by the real CLI and executed; "
                "transitions = leaf values observed (guards, written place, copies) and compared with the value-semantics model",
        "bounds_completed": {"types": len(tys), "placements": 3, "write_kinds": 11, "variadic_argument_counts": [1, 2, 3, 5], "payload_sizes_bytes": f"{sizes[0]}..{sizes[-1]}",
                             "byte_struct_sizes": "every size 1..64"},
        "distinct_outcomes": len(outcomes),
        "compilations": runner.compiles,
        "samples": [{"case": c.key, "body": c.body[:500], "expected": c.expected[:200]} for c in (cases[0], cases[len(cases) // 2], cases[-1])],
    }
    core.finish("C02", tier, seed, started, coverage, mism, None, assumptions=[
        "only leaf values are observed (padding bytes are not live values)",
        "stack neighbours are whatever the code generator places next to each other; the field and element placements force adjacency",
    ])
