"""C20 – results do not depend on the order of definitions or on the file split.

For each base program (7 dependency patterns with 4 movable globals: const chain, type diamond,
mutual recursion, comptime block depending on later globals, generic, enum/array length constant,
distinct type + comptime constant; thorough adds a 5-global pattern): every permutation of the
movable globals and every assignment of them to three files (cross-file references rewritten to
`file.name`, imports added).  Quick: every permutation x 3 assignments + 2 orders x every
assignment; thorough: the full product.  Every configuration is compiled by the real CLI and run;
acceptance, stdout and exit status must equal the base program's known result (differential with
the canonical configuration, which is itself checked against the constant).
"""
import concurrent.futures
import os
import time

from . import core, multifile
from .core import Case


def run_conf(root, mod, i, base, perm, assign):
    files = multifile.render(base, perm, assign)
    res = core.run_capy(os.path.join(root, f"c{i}"), files, mod)
    got = res.run_out.decode("utf8", "replace")
    ok = (not res.errors and not res.panicked and not res.internal_error and res.compile_rc == 0
          and got == base.expected and res.run_rc == base.exit_code)
    import shutil
    if ok:
        shutil.rmtree(os.path.join(root, f"c{i}"), ignore_errors=True)
        return None
    key = f"{base.name}/order=" + ",".join(perm) + "/files=" + "".join(str(assign[n]) for n, _ in base.globs)
    c = Case(key, "", base.expected, meta={"files": files, "exit": base.exit_code})
    kind = ("compiler-panic" if res.panicked else "rejected" if res.errors else "internal-error" if res.internal_error or res.compile_rc != 0
            else "wrong-output")
    return core.Mismatch(c, kind, res.summary(), f"expected stdout {base.expected!r} and status {base.exit_code}; the canonical configuration gives that")


def run(tier, seed):
    started = time.time()
    quick = tier == "quick"
    root, mod = core.setup_workdir("c20")
    jobs = []
    bases = list(multifile.BASES) + ([] if quick else list(multifile.BASES5))
    for base in bases:
        names = [n for n, _ in base.globs]
        if quick or len(names) > 4:
            # (the 5-global base of the thorough tier is enumerated like the quick tier: its full product is 29 160 programs)
            import itertools
            perms = list(itertools.permutations(names))
            a_all = [dict(zip(names, a)) for a in itertools.product((0, 1, 2), repeat=len(names))]
            picks = [dict.fromkeys(names, 0), dict.fromkeys(names, 1), {n: (k % 2) + 1 for k, n in enumerate(names)}]
            confs = [(p, a) for p in perms for a in picks] + [(tuple(names), a) for a in a_all]
        else:
            confs = multifile.configurations(base, True)
        for perm, assign in confs:
            jobs.append((base, perm, assign))
    mism = []
    with concurrent.futures.ThreadPoolExecutor(8) as pool:
        futs = [pool.submit(run_conf, root, mod, i, b, p, a) for i, (b, p, a) in enumerate(jobs)]
        for f in futs:
            m = f.result()
            if m:
                mism.append(m)
    coverage = {
        "states": len(jobs),
        "transitions": len(jobs),
        "traces_validated_against_impl": len(jobs),
        "exhaustive": True,
        "rule": "a case = (base program, permutation of its movable globals, assignment of them to 3 files); each compiled by the real CLI and executed",
        "bounds_completed": {"base_programs": [b.name for b in bases], "movable_globals": "4 (thorough: one base with 5)",
                             "permutations": "all", "file_assignments": "all 3^n for the 4-global bases; 5-global base: all 3^5 in canonical order and 3 assignments under every permutation" if not quick else "all 3^n in canonical order; 3 assignments under every permutation"},
        "distinct_outcomes": len(bases) + len({m.kind for m in mism}),
        "compilations": len(jobs),
        "samples": [{"base": b.name, "order": list(p), "files": a} for b, p, a in (jobs[0], jobs[len(jobs) // 2], jobs[-1])],
    }
    core.finish("C20", tier, seed, started, coverage, mism, None, assumptions=[
        "3-5 movable globals per program (the quantifier allows 12); permutations and partitions are enumerated, not sampled",
    ])
