"""C10 – out-of-range indexing and wrong #unwrap abort before touching memory.

Index family: container form x element type x length n x access kind x index type x index value
(0 .. n+4 and the boundary values of the index type), runtime indexes routed through an opaque
function.  In range: exactly that element is read / written (the whole array and two guards are
printed afterwards).  Out of range: the sentinel printed before the access appears, then the
`index out of bounds` message, exit status 1, and the sentinel after the access never appears.
Literal indexes >= n on fixed arrays must be rejected at compile time (and accepted below n).

Unwrap family: sum type x placement x held shape x requested variant.
"""
import itertools
import time
import zlib


def dhash(*parts):
    return zlib.crc32(repr(parts).encode())

from . import core, dispatch, tyir
from .core import Case
from .dispatch import PCase
from .tyir import (Arr, Enum, ErrU, Opt, Struct, U8, U16, U32, U64, I32, I64, Fresh, fmt_leaves)

BASE = '''printf :: (f: str, n: i64) extern;
mark :: (n: i64) { printf("\\n@%ld\\n", n); }
pr :: (v: i64) { printf("%ld ", v); }
opq :: (v: u64) -> u64 { v }
'''

S12 = Struct("S12", [("a", U32), ("b", U32), ("c", U32)])
M5 = Struct("M5", [("a", U64), ("b", U8)])

IDX_TYPES = {"u8": 8, "u16": 16, "u32": 32, "u64": 64, "usize": 64, "u128": 128}

FORMS = ["arr", "slice", "ptr", "ptrmut", "ptrptr", "fieldslice", "ptrslice", "nested-outer", "nested-inner", "structarr"]
WRITABLE = {"arr", "slice", "ptrmut", "fieldslice", "nested-outer", "nested-inner", "structarr"}


def idx_values(n, ity, full):
    bits = IDX_TYPES[ity]
    vals = list(range(0, n + 5)) if full else [0, n - 1, n, n + 1]
    for b in (8, 16, 31, 32, 63, 64):
        if b <= bits:
            vals += [(1 << b) - 1]
            if b < bits:
                vals += [1 << b]
    if bits == 128:
        vals += [(1 << 64) + k for k in range(0, n)] + [(1 << 127), (1 << 128) - 1]
    hi = 1 << bits
    return sorted({v for v in vals if 0 <= v < hi})


def idx_decl(ity, v):
    """declares `ix` of the index type with the runtime value v"""
    if ity == "u128":
        lo, hi = v & ((1 << 64) - 1), v >> 64
        return f"ix : u128 = (u128.(opq({hi})) << 64) + u128.(opq({lo}));"
    return f"ix : {ity} = {ity}.(opq({v}));"


def index_case(form, T, n, access, ity, v, literal=False):
    """-> PCase (runtime index) or Case (literal index)"""
    seed = n * 1000 + dhash(form, access) % 97
    vals = [T.val(seed + k) for k in range(n)]
    other = [T.val(seed + 50 + k) for k in range(n)]
    new = T.val(seed + 99)
    fresh = Fresh("q")
    body = [f"g1 : u64 = 111; a : [{n}]{T.spell()} = {Arr(n, T).lit(vals)}; g2 : u64 = 222;"]
    cur = [list(vals)]  # model of `a`
    ix = str(v) if literal else "ix"
    if not literal:
        body.append(idx_decl(ity, v))
    length = n
    if form == "arr":
        place = f"a[{ix}]"
    elif form == "slice":
        body.append(f"s : []{T.spell()} = a;")
        place = f"s[{ix}]"
    elif form == "ptr":
        body.append("p := ^a;")
        place = f"p[{ix}]"
    elif form == "ptrmut":
        body.append("p := ^mut a;")
        place = f"p[{ix}]"
    elif form == "ptrptr":
        body.append("p := ^a; pp := ^p;")
        place = f"pp[{ix}]"
    elif form == "fieldslice":
        body.append(f"s : []{T.spell()} = a; h := H{T.spell()}.{{ g = 1, s = s }};")
        place = f"h.s[{ix}]"
    elif form == "ptrslice":
        body.append(f"s : []{T.spell()} = a; ps := ^s;")
        place = f"ps[{ix}]"
    elif form == "nested-outer":
        body.append(f"aa : [{n}][2]{T.spell()} = [2]{T.spell()}.[" + ", ".join(Arr(2, T).lit([vals[k], other[k]]) for k in range(n)) + "];")
        place = f"aa[{ix}][1]"
    elif form == "nested-inner":
        body.append(f"aa : [2][{n}]{T.spell()} = [{n}]{T.spell()}.[{Arr(n, T).lit(other)}, {Arr(n, T).lit(vals)}];")
        place = f"aa[1][{ix}]"
    elif form == "structarr":
        body.append(f"w := WA{n}{T.spell()}.{{ g = 7, arr = a, t = 9 }};")
        place = f"w.arr[{ix}]"
    in_range = v < length
    out = []
    body.append("pr(-1);")
    out.append(-1)
    if form == "nested-outer":
        elem_model_get = lambda: other[v]
    else:
        elem_model_get = lambda: vals[v]
    # the access
    if access == "read":
        body.append(f"x := {place}; {T.show('x', fresh)}")
        if in_range:
            out += T.leaves(elem_model_get())
    elif access == "write":
        body.append(f"{place} = {T.lit(new)};")
    elif access == "compound":
        body.append(f"{place} += 1;")
    elif access == "addr":
        body.append(f"q := ^mut {place}; q^ = {T.lit(new)};")
    body.append("pr(-2);")
    # model of the store
    written = None
    if in_range and access in ("write", "addr"):
        written = new
    elif in_range and access == "compound":
        written = elem_model_get() + 1
    shared = form in ("arr", "slice", "ptrmut", "fieldslice", "ptrslice")  # the place aliases `a`
    if in_range:
        out.append(-2)
        a_model = list(vals)
        if written is not None and shared:
            a_model[v] = written
        # observation: a, the guards, and the container copy
        body.append(f"pr(i64.(g1)); {Arr(n, T).show('a', fresh)} pr(i64.(g2));")
        out += [111] + Arr(n, T).leaves(a_model) + [222]
        if form == "nested-outer":
            m = [[vals[k], other[k]] for k in range(n)]
            if written is not None:
                m[v][1] = written
            body.append(Arr(n, Arr(2, T)).show("aa", fresh))
            out += Arr(n, Arr(2, T)).leaves(m)
        elif form == "nested-inner":
            m = [list(other), list(vals)]
            if written is not None:
                m[1][v] = written
            body.append(Arr(2, Arr(n, T)).show("aa", fresh))
            out += Arr(2, Arr(n, T)).leaves(m)
        elif form == "structarr":
            m = list(vals)
            if written is not None:
                m[v] = written
            body.append(f"pr(i64.(w.g)); {Arr(n, T).show('w.arr', fresh)} pr(i64.(w.t));")
            out += [7] + Arr(n, T).leaves(m) + [9]
    key = f"index/{form}/{T.spell()}/{n}/{access}/{'lit' if literal else ity}/{v}"
    if literal:
        fixed = form not in ("slice", "fieldslice", "ptrslice")
        if not in_range and fixed:
            return Case(key, "\n".join(body), None, accept=False, reject_re="too big")
        if not in_range:
            return PCase(key, "\n".join(body), fmt_leaves(out), fault="index out of bounds", never="-2 ")
        return PCase(key, "\n".join(body), fmt_leaves(out))
    if in_range:
        return PCase(key, "\n".join(body), fmt_leaves(out))
    return PCase(key, "\n".join(body), fmt_leaves(out), fault="index out of bounds", never="-2 ")


def gen_index(quick):
    elem_types = [U8, I32, I64, S12]
    cases = []
    for form in FORMS:
        for T in elem_types:
            for n in (1, 2, 3, 4):
                accesses = ["read"]
                if form in WRITABLE:
                    accesses += ["write", "addr"]
                    if T is not S12:
                        accesses.append("compound")
                main_cell = (T is I32 and n == 3) or not quick
                for access in accesses:
                    for ity in IDX_TYPES:
                        if not main_cell and ity != "usize":
                            continue
                        for v in idx_values(n, ity, main_cell):
                            cases.append(index_case(form, T, n, access, ity, v))
                    # literal indexes
                    for v in range(0, n + 2):
                        cases.append(index_case(form, T, n, access, "lit", v, literal=True))
    return cases


def big_index_cases(quick=False):
    """arrays large enough that index * stride does not fit the index type (u8 index >= 64 into [100]i32, u16 index >= 16384
    into [20000]i32, rows of 64 bytes): the in-range element must still be exactly that element"""
    cases = []
    for ity, n, vals in (("u8", 100, [0, 31, 32, 63, 64, 65, 99, 100, 127, 128, 255]),
                         ("u16", 20000, [0, 8191, 8192, 16383, 16384, 19999, 20000, 32768, 65535]),
                         ("u32", 20000, [0, 16384, 19999, 20000, 70000]),
                         ("usize", 100, [0, 64, 99, 100])):
        for tname, mul in ((("i32", 3), ("u8", 1)) if quick else (("i32", 3), ("i64", 5), ("u8", 1))):
            for form in (("arr", "slice") if quick else ("arr", "slice", "ptrmut")):
                for access in ("read", "write"):
                    for v in vals:
                        body = [f"a : [{n}]{tname}; k := 0; while k < {n} {{ a[k] = {tname}.(k % 50 * {mul} + 1); k += 1; }}"]
                        body.append(idx_decl(ity, v))
                        place = {"arr": "a[ix]", "slice": "s[ix]", "ptrmut": "p[ix]"}[form]
                        if form == "slice":
                            body.append(f"s : []{tname} = a;")
                        elif form == "ptrmut":
                            body.append("p := ^mut a;")
                        body.append("pr(-1);")
                        out = [-1]
                        model = [(k % 50 * mul + 1) for k in range(n)]
                        if access == "read":
                            body.append(f"pr(i64.({place}));")
                            if v < n:
                                out.append(model[v])
                        else:
                            body.append(f"{place} = {tname}.(77);")
                            if v < n:
                                model[v] = 77
                        body.append("pr(-2);")
                        if v < n:
                            out.append(-2)
                            body.append(f"t : i64 = 0; k = 0; while k < {n} {{ t = t + i64.(a[k]) * i64.(k + 1); k += 1; }} pr(t);")
                            out.append(sum(x * (k + 1) for k, x in enumerate(model)))
                            cases.append(PCase(f"bigindex/{form}/{tname}/{n}/{access}/{ity}/{v}", "\n".join(body), fmt_leaves(out)))
                        else:
                            cases.append(PCase(f"bigindex/{form}/{tname}/{n}/{access}/{ity}/{v}", "\n".join(body), fmt_leaves(out),
                                               fault="index out of bounds", never="-2 "))
    # rows of 64 bytes indexed with a u8
    for v in (0, 3, 4, 5, 6, 200):
        body = ["aa : [6][16]i32; r := 0; while r < 6 { c := 0; while c < 16 { aa[r][c] = i32.(r * 100 + c); c += 1; } r += 1; }",
                idx_decl("u8", v), "pa := ^aa;", "pr(-1);", "pr(i64.(pa[ix][3])); pr(i64.(aa[ix][15]));", "pr(-2);"]
        if v < 6:
            cases.append(PCase(f"bigindex/rows/u8/{v}", "\n".join(body), fmt_leaves([-1, v * 100 + 3, v * 100 + 15, -2])))
        else:
            cases.append(PCase(f"bigindex/rows/u8/{v}", "\n".join(body), fmt_leaves([-1]), fault="index out of bounds", never="-2 "))
    return cases


def repointing_index_cases():
    """the index expression itself re-points the slice that is being indexed at an array of another length (the index is
    evaluated before the slice is read, so the *new* slice decides): the bounds check and the access must use the same slice"""
    cases = []
    decls = ("RPBuf :: struct { small: [2]i32, guard: [4]i32, big: [6]i32, tail: [2]i32 };\n"
             "rp_to2 :: (s: ^mut []i32, target: ^mut [2]i32, i: usize) -> usize { s^ = target^; i }\n"
             "rp_to6 :: (s: ^mut []i32, target: ^mut [6]i32, i: usize) -> usize { s^ = target^; i }\n")
    for direction, (old, new, fn, newlen) in {"shrink": ("big", "small", "rp_to2", 2), "grow": ("small", "big", "rp_to6", 6)}.items():
        for access in ("read", "write"):
            for i in range(0, 8):
                body = ["rb := RPBuf.{ small = i32.[21, 22], guard = i32.[777, 778, 779, 780], big = i32.[61, 62, 63, 64, 65, 66], tail = i32.[991, 992] };",
                        f"s : []i32 = rb.{old};", f"ix : usize = usize.(opq({i}));", "pr(-1);"]
                model = {"small": [21, 22], "guard": [777, 778, 779, 780], "big": [61, 62, 63, 64, 65, 66], "tail": [991, 992]}
                out = [-1]
                place = f"s[{fn}(^mut s, ^mut rb.{new}, ix)]"
                if access == "read":
                    body.append(f"pr(i64.({place}));")
                    if i < newlen:
                        out.append(model[new][i])
                else:
                    body.append(f"{place} = 5;")
                    if i < newlen:
                        model[new][i] = 5
                body.append("pr(-2);")
                key = f"repointing-index/{direction}/{access}/{i}"
                if i < newlen:
                    out.append(-2)
                    body.append("k := 0; while k < 2 { pr(i64.(rb.small[k])); k += 1; } k = 0; while k < 4 { pr(i64.(rb.guard[k])); k += 1; } "
                                "k = 0; while k < 6 { pr(i64.(rb.big[k])); k += 1; } pr(i64.(rb.tail[0])); pr(i64.(rb.tail[1])); pr(i64.(s.len));")
                    out += model["small"] + model["guard"] + model["big"] + model["tail"] + [newlen]
                    cases.append(PCase(key, "\n".join(body), fmt_leaves(out)))
                else:
                    cases.append(PCase(key, "\n".join(body), fmt_leaves(out), fault="index out of bounds", never="-2 "))
    return cases, decls


# ----------------------------------------------------------------------------------------------
# unwrap

def gen_unwrap(quick):
    E3 = Enum("E3", [("A", U8, None), ("B", I64, None), ("C", None, None)])
    E4 = Enum("E4", [("A", M5, None), ("B", U8, 9), ("C", None, None)])
    E6 = Enum("E6", [("A", None, None), ("B", None, None), ("C", None, None)])
    E1 = Enum("E1", [("A", U8, None)])
    Err = Enum("Err", [("Bad", U8, None), ("Worse", None, None)])
    sums = [E1, E3, E4, E6, Opt(I32), Opt(U8), Opt(M5), Opt(E3), ErrU(Err, I64), ErrU(Err, M5), ErrU(Err, U8)]
    cases = []
    for T in sums:
        for placement in ("local", "field", "elem", "deref", "param"):
            for held in T.shapes():
                for req in requests(T):
                    cases.append(unwrap_case(T, placement, held, req))
    # nullable pointers
    for held in ("some", "nil"):
        for req in ("default", "ptr", "nil"):
            for placement in ("local", "field"):
                cases.append(unwrap_ptr_case(placement, held, req))
    return cases, sums


def discriminant_unwrap_cases():
    """enums whose 3 variants mix automatic and hand-written discriminants (each automatic or from {0, 1, 2, 5}): #unwrap with the
    held variant passes and yields the payload, with any other variant it must abort"""
    cases = []
    k = 0
    names = "ABC"
    for pat in itertools.product((None, 0, 1, 2, 5), repeat=3):
        explicit = [d for d in pat if d is not None]
        if len(explicit) != len(set(explicit)) or not explicit:
            continue
        k += 1
        en = f"DU{k}"
        decl = f"{en} :: enum {{ " + ", ".join(f"{names[i]}: i64" + (f" | {pat[i]}" if pat[i] is not None else "") for i in range(3)) + " };"
        for held in range(3):
            for req in range(3):
                body = (f"e : {en} = {en}.{names[held]}.({100 + held}); pr(-1);\n"
                        f"x := #unwrap(e, {en}.{names[req]}); pr(i64.(x)); pr(-2);")
                pat_s = ",".join("_" if d is None else str(d) for d in pat)
                key = f"unwrap-discriminants/{pat_s}/{names[held]}/{names[req]}"
                if held == req:
                    cases.append(PCase(key, body, fmt_leaves([-1, 100 + held, -2]), decls=decl))
                else:
                    cases.append(PCase(key, body, fmt_leaves([-1]), decls=decl, fault="#unwrap", never="-2 "))
    for c in cases:
        c.meta_decl, c.decls = c.decls, ""
    return cases


def requests(T):
    if isinstance(T, Enum):
        return [("variant", n) for n, _, _ in T.variants]
    if isinstance(T, Opt):
        return [("default", None), ("payload", None), ("nil", None)]
    return [("payload", None), ("error", None)]


def unwrap_case(T, placement, held, req):
    seed = dhash(T.spell(), placement, held, str(req)) % 9973 + 1
    v = T.val(seed, held)
    fresh = Fresh("q")
    decls = ""
    body = []
    tag = f"{dhash(T.spell(), placement, held, str(req)) % 10**8}"
    if placement == "local":
        body.append(f"g1 : u64 = 111; e : {T.spell()} = {T.lit(v)}; g2 : u64 = 222;")
        src = "e"
    elif placement == "field":
        body.append(f"w := WU{wrap_name(T)}.{{ g = 5, e = {T.lit(v)}, t = 6 }};")
        src = "w.e"
    elif placement == "elem":
        other = T.val(seed + 1)
        body.append(f"arr : [2]{T.spell()} = {T.spell()}.[{T.lit(other)}, {T.lit(v)}]; ix := usize.(opq(1));")
        src = "arr[ix]"
    elif placement == "deref":
        body.append(f"e : {T.spell()} = {T.lit(v)}; pe := ^e;")
        src = "pe^"
    else:
        src = "e"
    kind, name = req
    out = [-1]
    stmts = ["pr(-1);"]
    match = False
    if isinstance(T, Enum):
        pt = next(t for n, t, _ in T.variants if n == name)
        match = v[0] == name
        if pt is None:
            stmts.append(f"#unwrap({src}, {T.name}.{name});")
        else:
            stmts.append(f"x := #unwrap({src}, {T.name}.{name}); {pt.show(f'{pt.spell()}.(x)', fresh)}")
            if match:
                out += pt.leaves(v[1])
    elif isinstance(T, Opt):
        if kind == "nil":
            match = v[0] == "nil"
            stmts.append(f"#unwrap({src}, nil);")
        else:
            match = v[0] == "some"
            arg = "" if kind == "default" else f", {T.sub.spell()}"
            stmts.append(f"x := #unwrap({src}{arg}); {T.sub.show('x', fresh)}")
            if match:
                out += T.sub.leaves(v[1])
    else:
        if kind == "payload":
            match = v[0] == "ok"
            stmts.append(f"x := #unwrap({src}, {T.sub.spell()}); {T.sub.show('x', fresh)}")
            if match:
                out += T.sub.leaves(v[1])
        else:
            match = v[0] == "err"
            stmts.append(f"x := #unwrap({src}, {T.err.spell()}); {T.err.show('x', fresh)}")
            if match:
                out += T.err.leaves(v[1])
    stmts.append("pr(-2);")
    if match:
        out.append(-2)
    if placement == "param":
        decls = f"uw_{tag} :: (e: {T.spell()}) {{ " + " ".join(stmts) + " }"
        body.append(f"uw_{tag}({T.lit(v)});")
    else:
        body += stmts
    if match:
        # the value is still intact afterwards
        if placement != "param":
            body.append(T.show(src, fresh))
            out += T.leaves(v)
    key = f"unwrap/{T.spell()}/{placement}/{held}/{kind}:{name}"
    if match:
        return PCase(key, "\n".join(body), fmt_leaves(out), decls=decls)
    return PCase(key, "\n".join(body), fmt_leaves(out), decls=decls, fault="#unwrap", never="-2 ")


def wrap_name(T):
    return "".join(ch if ch.isalnum() else "_" for ch in T.spell())


def unwrap_ptr_case(placement, held, req):
    body = ["tv : i32 = 41;"]
    init = "^tv" if held == "some" else "nil"
    if placement == "local":
        body.append(f"op : ?^i32 = {init};")
        src = "op"
    else:
        body.append(f"w := WP.{{ g = 1, op = {init}, t = 2 }};")
        src = "w.op"
    out = [-1]
    body.append("pr(-1);")
    if req == "nil":
        match = held == "nil"
        body.append(f"#unwrap({src}, nil);")
    else:
        match = held == "some"
        arg = "" if req == "default" else ", ^i32"
        body.append(f"x := #unwrap({src}{arg}); pr(i64.(x^));")
        if match:
            out.append(41)
    body.append("pr(-2);")
    key = f"unwrap/?^i32/{placement}/{held}/{req}"
    if match:
        out.append(-2)
        return PCase(key, "\n".join(body), fmt_leaves(out))
    return PCase(key, "\n".join(body), fmt_leaves(out), fault="#unwrap", never="-2 ")


def run(tier, seed):
    started = time.time()
    quick = tier == "quick"
    idx_cases = gen_index(quick) + big_index_cases(quick)
    uw_cases, sums = gen_unwrap(quick)
    elem_types = [U8, I32, I64, S12]
    decl_tys = [S12, M5] + sums
    extra = []
    for T in elem_types:
        extra.append(f"H{T.spell()} :: struct {{ g: u8, s: []{T.spell()} }};")
        for n in (1, 2, 3, 4):
            extra.append(f"WA{n}{T.spell()} :: struct {{ g: u8, arr: [{n}]{T.spell()}, t: u8 }};")
    for T in sums:
        extra.append(f"WU{wrap_name(T)} :: struct {{ g: u8, e: {T.spell()}, t: u8 }};")
    extra.append("WP :: struct { g: u8, op: ?^i32, t: u8 };")
    prelude = BASE + tyir.all_decls(decl_tys) + "\n" + "\n".join(extra) + "\n"
    du_cases = discriminant_unwrap_cases()
    pcases = [c for c in idx_cases + uw_cases if isinstance(c, PCase)]
    rcases = [c for c in idx_cases + uw_cases if isinstance(c, Case)]
    dr = dispatch.DispatchRunner("c10", prelude, group=150)
    mism = dr.run(pcases)
    # the enum declarations of this family are shared by the cases of a pattern, so they go into the prelude of their own runner
    rp_cases, rp_decls = repointing_index_cases()
    du_prelude = prelude + "\n".join(sorted({c.meta_decl for c in du_cases})) + "\n" + rp_decls
    dr2 = dispatch.DispatchRunner("c10du", du_prelude, group=150)
    mism += dr2.run(du_cases + rp_cases)
    pcases = pcases + du_cases + rp_cases
    rr = core.Runner("c10r", batch_size=100, prelude=prelude)
    mism += rr.run(rcases)
    faults = sum(1 for c in pcases if c.fault)
    if faults < 100 or len(dr.outcomes) < 50:
        core.machinery_failure("vacuous run")
    coverage = {
        "states": len(pcases) + len(rcases),
        "transitions": dr.executions + len(rcases),
        "traces_validated_against_impl": len(pcases) + len(rcases),
        "exhaustive": True,
        "rule": "a case = one access (or one #unwrap) with one index value (or held/requested variant pair), compiled by the real CLI; every "
                "runtime case is executed in its own process (dispatcher executable selected by CASE)",
        "bounds_completed": {"container_forms": len(FORMS), "element_types": 4, "lengths": "1..4", "index_types": list(IDX_TYPES),
                             "index_values": "0..n+4 plus the boundaries 2^k-1, 2^k of each index type (u128: 2^64+k)",
                             "literal_indexes": "0..n+1", "big_arrays": "[100]T / [20000]T / [6][16]i32 with u8, u16, u32 indexes whose product with the stride exceeds the index type", "sum_types": len(sums) + 1, "unwrap_placements": 5,
                             "runtime_cases": len(pcases), "expected_faults": faults, "compile_time_rejections": len(rcases)},
        "distinct_outcomes": len(dr.outcomes),
        "compilations": dr.compiles + dr2.compiles + rr.compiles,
        "executions": dr.executions + dr2.executions,
        "samples": [{"case": c.key, "body": c.body[:400], "expected": c.expected, "fault": c.fault} for c in (pcases[0], pcases[len(pcases) // 2], pcases[-1])],
    }
    core.finish("C10", tier, seed, started, coverage, mism, explains, assumptions=[
        "the out-of-range access itself cannot be observed after exit; what is checked is that the process ends with the message and status 1 "
        "(not a signal) for every out-of-range index incl. 2^31, 2^32, 2^63, 2^64-1, so no wild access happened first",
    ])


def explains(model, m):
    if model == "u128-index-truncated":
        return "/u128/" in m.case.key
    return False
