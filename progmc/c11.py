"""C11 – switches are exhaustive, non-redundant and dispatch on the runtime variant.

For every sum type of a universe and every arm list of length <= n+1 over the arm alphabet
{each own variant fully qualified, each own variant in shorthand, `_`, a variant of a structurally
identical foreign enum, an unknown shorthand, a non-type expression}:

  accepted  <=>  only own variants, none twice, and (all covered, or exactly one default arm which is last)

(lists that cover everything *and* end in a default arm are not judged for acceptance).  Every
accepted switch is executed on every constructible value of the type (two payloads per variant):
exactly the arm of the value's variant runs, bound to that payload; the default arm is bound to the
whole value.
"""
import itertools
import time

from . import core, tyir
from .core import Case
from .tyir import Arr, Enum, ErrU, Opt, Struct, U8, U16, I32, I64, U64, Fresh, fmt_leaves

BASE = '''printf :: (f: str, n: i64) extern;
mark :: (n: i64) { printf("\\n@%ld\\n", n); }
pr :: (v: i64) { printf("%ld ", v); }
'''

S2 = Struct("S2", [("a", U64), ("b", U8)])


class Ptr(tyir.Ty):
    """^i32 pointing at one of two globals-by-function (only used as an optional's payload)"""

    def spell(self):
        return "^i32"

    def val(self, seed, shape=None):
        return 40 + seed % 2

    def lit(self, v):
        return f"^pv{v}"

    def leaves(self, v):
        return [v]

    def show(self, expr, fresh):
        return f"pr(i64.({expr}^));"


def sum_types(quick):
    """-> [(type, [(arm spelling, variant key)], foreign arm spellings)]"""
    res = []

    def enum_entry(E, F):
        own = []
        for n, _, _ in E.variants:
            own.append((f"{E.name}.{n}", n))
            own.append((f".{n}", n))
        foreign = [f"{F.name}.{F.variants[0][0]}", ".Zz", "5"]
        return (E, own, foreign)

    payloads = [None, U8, I64, S2]
    # enums with 1..3 (thorough 4) variants; payload pattern rotates
    maxn = 3 if quick else 4
    k = 0
    for n in range(1, maxn + 1):
        pats = [tuple(payloads[(i + s) % 4] for i in range(n)) for s in range(4)]
        if n >= 3:
            pats = pats[:2] if quick or n == 4 else pats
        for pat in pats:
            for disc in (False, True):
                if disc and (n == 1 or (quick and n == 3) or (n == 4 and pat != pats[0])):
                    continue
                k += 1
                names = "ABCDEF"[:n]
                E = Enum(f"E{k}", [(names[i], pat[i], (7, 128, 200, 255)[i] if disc else None) for i in range(n)])
                F = Enum(f"F{k}", [(names[i], pat[i], (7, 128, 200, 255)[i] if disc else None) for i in range(n)])
                res.append(enum_entry(E, F))
    Err = Enum("Err", [("Bad", U8, None), ("Worse", None, None)])
    E0 = res[1][0]
    for T, own, foreign in (
        (Opt(I32), [("i32", "some"), ("nil", "nil")], ["u8", "5", "Err"]),
        (Opt(S2), [("S2", "some"), ("nil", "nil")], ["i32", "5"]),
        (Opt(Ptr()), [("^i32", "some"), ("nil", "nil")], ["i32", "5"]),
        (Opt(E0), [(E0.name, "some"), ("nil", "nil")], ["i32", "5"]),
        (ErrU(Err, I32), [("i32", "ok"), ("Err", "err")], ["u8", "nil", "5"]),
        (ErrU(Err, S2), [("S2", "ok"), ("Err", "err")], ["i32", "5"]),
    ):
        res.append((T, own, foreign))
    return res


def shape_key(T, v):
    """which arm key a model value dispatches to"""
    if isinstance(T, Enum):
        return v[0]
    return v[0]


def values_of(T):
    vals = []
    for shape in T.shapes():
        a = T.val(3, shape)
        b = T.val(8, shape)
        vals.append(a)
        if b != a:
            vals.append(b)
    return vals


def arm_payload_show(T, key, q, fresh):
    """capy code printing the payload bound to switch argument q in the arm for `key`; model leaves fn"""
    if isinstance(T, Enum):
        pt = next(t for n, t, _ in T.variants if n == key)
        if pt is None:
            return "", lambda v: []
        return pt.show(f"{pt.spell()}.({q})", fresh), lambda v: pt.leaves(v[1])
    if isinstance(T, Opt):
        if key == "nil":
            return "", lambda v: []
        return T.sub.show(q, fresh), lambda v: T.sub.leaves(v[1])
    if key == "ok":
        return T.sub.show(q, fresh), lambda v: T.sub.leaves(v[1])
    return T.err.show(q, fresh), lambda v: T.err.leaves(v[1])


def model_key(T, v):
    if isinstance(T, ErrU):
        return "ok" if v[0] == "ok" else "err"
    return v[0]


def make_case(T, tid, own, foreign, arms, idx):
    """arms: list of ('own', spelling, key) | ('default',) | ('bad', spelling)"""
    keys_all = []
    for _, k in own:
        if k not in keys_all:
            keys_all.append(k)
    named = [a[2] for a in arms if a[0] == "own"]
    ndefault = sum(1 for a in arms if a[0] == "default")
    bad = any(a[0] == "bad" for a in arms)
    dup = len(named) != len(set(named))
    covered = set(named) == set(keys_all)
    default_last = ndefault == 1 and arms[-1][0] == "default"
    if bad or dup or ndefault > 1 or (ndefault == 1 and not default_last):
        verdict = False
    elif covered and ndefault == 0:
        verdict = True
    elif covered and default_last:
        verdict = None  # not judged
    elif default_last:
        verdict = True
    else:
        verdict = False
    fresh = Fresh("w")
    q = "q"
    arm_src = []
    models = []
    for i, a in enumerate(arms):
        if a[0] == "own":
            code, mf = arm_payload_show(T, a[2], q, fresh)
            arm_src.append(f"{a[1]} => {{ pr({100 + i}); {code} }}")
            models.append((a[2], i, mf))
        elif a[0] == "default":
            arm_src.append(f"_ => {{ pr({100 + i}); {T.show(q, fresh)} }}")
            models.append((None, i, lambda v: T.leaves(v)))
        else:
            arm_src.append(f"{a[1]} => {{ pr({100 + i}); }}")
    fn = f"sw_{tid}_{idx}"
    decls = f"{fn} :: (v: {T.spell()}) {{ switch {q} in v {{ " + ", ".join(arm_src) + " } pr(-9); }"
    body = []
    out = []
    if verdict is not False:
        for v in values_of(T):
            body.append(f"{fn}({T.lit(v)});")
            mk = model_key(T, v)
            hit = next((m for m in models if m[0] == mk), None) or next((m for m in models if m[0] is None), None)
            out += [100 + hit[1]] + hit[2](v) + [-9]
    else:
        body.append(f"{fn}({T.lit(values_of(T)[0])});")
    key = f"{T.spell()}/" + ",".join(a[1] if a[0] != "default" else "_" for a in arms)
    if verdict is False:
        return Case(key, "\n".join(body), None, decls=decls, accept=False)
    c = Case(key, "\n".join(body), fmt_leaves(out), decls=decls, accept=True)
    c.meta["judged"] = verdict is True
    return c


def gen(quick):
    cases = []
    types = sum_types(quick)
    for tid, (T, own, foreign) in enumerate(types):
        alphabet = [("own", s, k) for s, k in own] + [("default",)] + [("bad", s) for s in foreign]
        nvar = len({k for _, k in own})
        maxlen = nvar + 1
        if nvar >= 3 and quick:
            maxlen = nvar  # quick: lists up to n arms for 3-variant enums
        idx = 0
        for length in range(0, maxlen + 1):
            for arms in itertools.product(alphabet, repeat=length):
                # lists with two or more bad arms add nothing over one bad arm
                if sum(1 for a in arms if a[0] == "bad") > 1:
                    continue
                idx += 1
                cases.append(make_case(T, tid, own, foreign, list(arms), idx))
    return cases, types


def distinct_cases():
    """switches over `distinct` wrappers of an enum, an optional and an error union (exhaustive lists and
    lists with a default arm; one uncovered and one duplicate list each)"""
    cases = []
    decls = ("DW_E :: enum { A: i32, B };\nDW_Err :: enum { Bad: u8, Worse };\n"
             "DWE :: distinct DW_E;\nDWO :: distinct ?i32;\nDWU :: distinct DW_Err!i32;\n"
             # error unions whose two sides look alike: structs with identical fields, distincts of one underlying type
             "LA_E :: struct { line: i32, col: i32 };\nLA_P :: struct { line: i32, col: i32 };\n"
             "LB_E :: distinct i32;\nLB_P :: distinct i32;\nLD_P :: distinct u8;\n")
    fams = [
        ("DWE", [("DWE.(DW_E.A.(5))", "A", [5]), ("DWE.(DW_E.B)", "B", [])],
         {"A": (".A", "pr(i64.(i32.(q)));"), "B": (".B", "")}),
        ("DWO", [("DWO.(7)", "some", [7]), ("DWO.(nil)", "nil", [])],
         {"some": ("i32", "pr(i64.(q));"), "nil": ("nil", "")}),
        ("DWU", [("DWU.(9)", "ok", [9]), ("DWU.(DW_Err.Worse)", "err", [])],
         {"ok": ("i32", "pr(i64.(q));"), "err": ("DW_Err", "")}),
        ("LA_E!LA_P", [("LA_P.{ line = 8, col = 1 }", "ok", [8, 1]), ("LA_E.{ line = 3, col = 7 }", "err", [3, 7])],
         {"ok": ("LA_P", "pr(i64.(q.line)); pr(i64.(q.col));"), "err": ("LA_E", "pr(i64.(q.line)); pr(i64.(q.col));")}),
        ("LB_E!LB_P", [("LB_P.(9)", "ok", [9]), ("LB_E.(5)", "err", [5])],
         {"ok": ("LB_P", "pr(i64.(i32.(q)));"), "err": ("LB_E", "pr(i64.(i32.(q)));")}),
        ("DW_Err!LD_P", [("LD_P.(9)", "ok", [9]), ("DW_Err.Bad.(4)", "err", [])],
         {"ok": ("LD_P", "pr(i64.(u8.(q)));"), "err": ("DW_Err", "")}),
    ]
    k = 0
    for name, values, arms in fams:
        keys = list(arms)
        lists = [[keys[0], keys[1]], [keys[1], keys[0]], [keys[0], "_"], [keys[1], "_"], ["_"], [keys[0]], [keys[0], keys[0]]]
        for lst in lists:
            k += 1
            named = [a for a in lst if a != "_"]
            ok = len(named) == len(set(named)) and (set(named) == set(keys) or lst[-1] == "_")
            src = []
            for i, a in enumerate(lst):
                if a == "_":
                    src.append(f"_ => {{ pr({100 + i}); }}")
                else:
                    src.append(f"{arms[a][0]} => {{ pr({100 + i}); {arms[a][1]} }}")
            fn = f"dsw{k}"
            d = f"{fn} :: (v: {name}) {{ switch q in v {{ " + ", ".join(src) + " } pr(-9); }"
            body, out = [], []
            for lit, key, leaves in values:
                body.append(f"{fn}({lit});")
                idx = lst.index(key) if key in lst else lst.index("_") if "_" in lst else None
                if idx is not None:
                    out += [100 + idx] + (leaves if lst[idx] != "_" else []) + [-9]
            if ok:
                cases.append(Case(f"distinct {name}/" + ",".join(lst), "\n".join(body), fmt_leaves(out), decls=d))
            else:
                cases.append(Case(f"distinct {name}/" + ",".join(lst), body[0], None, decls=d, accept=False))
    return cases, decls


def discriminant_pattern_cases(quick):
    """every way of giving each of 3 (and 4) variants either no discriminant or one of {0, 1, 2, 5} (hand-written values
    distinct): whatever values the automatic variants get, every variant must stay distinguishable - an exhaustive switch
    runs exactly the arm of the value's variant, and #is_variant is true for exactly that variant"""
    cases = []
    k = 0
    names = "ABCD"
    for n in (3, 4):
        for pat in itertools.product((None, 0, 1, 2, 5), repeat=n):
            explicit = [d for d in pat if d is not None]
            if len(explicit) != len(set(explicit)) or not explicit:
                continue
            if quick and n == 4 and sum(1 for d in pat if d is None) not in (1, 2):
                continue
            k += 1
            en = f"DP{k}"
            variants = ", ".join(f"{names[i]}{': u8' if i == 0 else ''}" + (f" | {pat[i]}" if pat[i] is not None else "") for i in range(n))
            decl = f"{en} :: enum {{ {variants} }};"
            arms = ", ".join(f".{names[i]} => {{ pr({i}); }}" for i in range(n))
            checks = " ".join(f"pb(#is_variant(v, {en}.{names[i]}));" for i in range(n))
            fn = f"dp{k} :: (v: {en}) {{ switch q in v {{ {arms} }} {checks} }}"
            body, out = [], []
            for i in range(n):
                lit = f"{en}.{names[i]}.(7)" if i == 0 else f"{en}.{names[i]}"
                body.append(f"dp{k}({lit});")
                out += [i] + [1 if j == i else 0 for j in range(n)]
            pat_s = ",".join("_" if d is None else str(d) for d in pat)
            cases.append(Case(f"discriminants/{pat_s}", "\n".join(body), fmt_leaves(out), decls=decl + "\n" + fn))
    return cases


def explains(model, m):
    if model == "distinct-sum-type-switch":
        return m.case.key.startswith("distinct DW") and m.kind == "compiler-panic" and "entered unreachable code" in (m.detail or "")
    return False


def run(tier, seed):
    started = time.time()
    quick = tier == "quick"
    cases, types = gen(quick)
    dcases, ddecls = distinct_cases()
    decl_tys = [S2] + [T for T, _, _ in types]
    foreign_enums = []
    for T, own, foreign in types:
        if isinstance(T, Enum):
            foreign_enums.append(Enum("F" + T.name[1:], T.variants))
    prelude = BASE + tyir.all_decls(decl_tys + foreign_enums) + "\npv40 : i32 : 40;\npv41 : i32 : 41;\n" + ddecls
    # an accepted case that is wrongly rejected makes its whole batch unobservable, so the unjudged
    # (covered + default) cases go in batches of their own
    judged = [c for c in cases if not c.accept or c.meta.get("judged")]
    unjudged = [c for c in cases if c.accept and not c.meta.get("judged")]
    runner = core.Runner("c11", batch_size=80, prelude=prelude)
    mism = runner.run(judged)
    r2 = core.Runner("c11u", batch_size=80, prelude=prelude)
    m2 = r2.run(unjudged)
    # covered + default: a rejection is not a violation (the statement does not decide it)
    mism += [m for m in m2 if m.kind != "rejected"]
    r3 = core.Runner("c11d", batch_size=10, prelude=prelude)
    mism += r3.run(dcases)
    pcases = discriminant_pattern_cases(quick)
    r4 = core.Runner("c11p", batch_size=40, prelude=BASE + "pb :: (b: bool) { if b { pr(1); } else { pr(0); } }\n")
    mism += r4.run(pcases)
    cases = cases + dcases + pcases
    n_acc = sum(1 for c in cases if c.accept)
    outcomes = {c.expected for c in cases if c.accept}
    if n_acc < 50 or len(cases) - n_acc < 50:
        core.machinery_failure("vacuous run")
    coverage = {
        "states": len(cases),
        "transitions": sum(len(c.key.split(",")) for c in cases),
        "traces_validated_against_impl": len(cases),
        "exhaustive": True,
        "rule": "a case = (sum type, arm list); every case is compiled by the real CLI; accepted ones are executed on every variant x two payloads",
        "bounds_completed": {"sum_types": len(types), "discriminant_patterns": "3 and 4 variants, each automatic or hand-written from {0, 1, 2, 5}", "distinct_wrappers": ["distinct enum", "distinct ?i32", "distinct Err!i32"], "max_variants": 3 if quick else 4,
                             "arm_lists": "all sequences over {qualified, shorthand, `_`, foreign variant, unknown shorthand, non-type} of length <= n+1 "
                                          "(quick: <= n for 3-variant enums), at most one non-own arm per list",
                             "expected_accept": n_acc, "expected_reject": len(cases) - n_acc, "not_judged_for_acceptance": len(unjudged)},
        "distinct_outcomes": len(outcomes),
        "compilations": runner.compiles + r2.compiles,
        "samples": [{"case": c.key, "decls": c.decls[:400], "expected": c.expected, "accept": c.accept} for c in (cases[1], cases[len(cases) // 2], cases[-1])],
    }
    core.finish("C11", tier, seed, started, coverage, mism, explains, assumptions=[
        "lists that name every variant and also end in a default arm are executed if accepted but not judged for acceptance",
    ])
