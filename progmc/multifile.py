"""Multi-file program family shared by C20 (order / file split independence) and C21 (reproducible builds).

A base program is a list of movable globals (name, text with `@name` references to other globals) plus a fixed
`main` body.  A configuration is a permutation of the movable globals and an assignment of each to one
of up to three files (main.capy, fa.capy, fb.capy); a reference that crosses files is spelled `file.name`
and the referring file imports the other one.  Output helpers live in io.capy, imported by every file.
"""
import itertools
import re

IO = '''printf :: (f: str, n: i64) extern;
pr :: (v: i64) { printf("%ld ", v); }
'''

FILES = ["main", "fa", "fb"]
ALIAS = ["fm", "fa", "fb"]


class Base:
    def __init__(self, name, globs, main_body, expected, exit_code=0):
        self.name, self.globs, self.main_body, self.expected, self.exit_code = name, globs, main_body, expected, exit_code


BASES = [
    Base("chain", [
        ("A", "A :: 3;"),
        ("B", "B :: @A;"),
        ("C", "C :: @B;"),
        ("f", "f :: () -> i64 { @C + 1 }"),
    ], "io.pr(@f());", "4 "),
    Base("types-diamond", [
        ("T", "T :: i32;"),
        ("S", "S :: struct { x: @T, y: [2]@T };"),
        ("mk", "mk :: (v: @T) -> @S { @S.{ x = v, y = @T.[v, v + 1] } }"),
        ("get", "get :: (s: @S) -> @T { s.x + s.y[1] }"),
    ], "io.pr(i64.(@get(@mk(5))));", "11 "),
    Base("mutual-recursion", [
        ("even", "even :: (n: i32) -> bool { if n == 0 { true } else { @odd(n - 1) } }"),
        ("odd", "odd :: (n: i32) -> bool { if n == 0 { false } else { @even(n - 1) } }"),
        ("LIM", "LIM :: 7;"),
        ("chk", "chk :: () -> i64 { if @even(@LIM) { 1 } else { 2 } }"),
    ], "io.pr(@chk());", "2 "),
    Base("comptime-later", [
        ("K", "K :: comptime { @h(4) };"),
        ("h", "h :: (v: i64) -> i64 { v * @M }"),
        ("M", "M :: 6;"),
        ("use", "use :: () -> i64 { @K + @M }"),
    ], "io.pr(@use());", "30 "),
    Base("generic", [
        ("gen", "gen :: (comptime T: type, v: T) -> T { v + @ONE }"),
        ("ONE", "ONE :: 1;"),
        ("Ty", "Ty :: i64;"),
        ("use", "use :: () -> @Ty { @gen(@Ty, 41) + @gen(@Ty, 0) }"),
    ], "io.pr(@use());", "43 "),
    Base("enum-array-const", [
        ("N", "N : usize : 3;"),
        ("E", "E :: enum { A: [@N]u8, B };"),
        ("cnt", "cnt :: () -> usize { arr : [@N]i32; arr.len }"),
        ("pick", "pick :: (e: @E) -> i64 { switch v in e { .A => i64.(v[2]), .B => -1 } }"),
    ], "io.pr(i64.(@cnt())); io.pr(@pick(@E.A.(u8.[4, 5, 6]))); io.pr(@pick(@E.B));", "3 6 -1 "),
    Base("annotated-consts-with-type-alias", [
        ("Count", "Count :: i64;"),
        ("limit", "limit : @Count : 40;"),
        ("twice", "twice :: comptime { @limit * 2 };"),
        ("get", "get :: () -> @Count { @limit + @twice }"),
    ], "io.pr(@get());", "120 "),
    Base("alias-chain-and-annotated-struct", [
        ("A1", "A1 :: @A2;"),
        ("A2", "A2 :: u8;"),
        ("P", "P :: struct { x: @A1, y: @A1 };"),
        ("origin", "origin : @P : comptime { @P.{ x = 250, y = 10 } };"),
    ], "io.pr(i64.(@origin.x + @origin.y));", "4 "),
    Base("distinct-and-lambda-table", [
        ("Id", "Id :: distinct i32;"),
        ("mkid", "mkid :: (v: i32) -> @Id { @Id.(v + @OFF) }"),
        ("OFF", "OFF :: comptime { 10 * 10 };"),
        ("raw", "raw :: (i: @Id) -> i64 { i64.(i32.(i)) }"),
    ], "io.pr(@raw(@mkid(5)));", "105 "),
    # chains of constants whose *value* is needed at compile time (array length, comptime argument, discriminant)
    Base("const-chain-as-array-length", [
        ("N0", "N0 : usize : 3;"),
        ("N1", "N1 : usize : @N0;"),
        ("N2", "N2 : usize : @N1;"),
        ("cnt", "cnt :: () -> usize { arr : [@N2]i32; arr.len }"),
    ], "io.pr(i64.(@cnt()));", "3 "),
    Base("const-chain-as-comptime-arg-and-discriminant", [
        ("D0", "D0 : u8 : 7;"),
        ("D1", "D1 : u8 : @D0;"),
        ("E", "E :: enum { A | @D1, B | 9 };"),
        ("g", "g :: (comptime n: u8) -> i64 { i64.(n) * 2 }"),
    ], "io.pr(@g(@D1)); e : @E = @E.B; if #is_variant(e, @E.B) { io.pr(1); } if #is_variant(e, @E.A) { io.pr(2); }", "14 1 "),
]

BASES5 = [
    Base("five-chain", [
        ("A", "A : usize : 2;"),
        ("T", "T :: i64;"),
        ("S", "S :: struct { v: @T, w: [@A]@T };"),
        ("mk", "mk :: () -> @S { @S.{ v = @K, w = @T.[1, 2] } }"),
        ("K", "K :: comptime { i64.(@A) * 21 };"),
    ], "s := @mk(); io.pr(s.v + s.w[1]);", "44 "),
]

REF_RE = re.compile(r"@(\w+)")


def render(base, perm, assign, decoys=True):
    """perm: order of the movable globals; assign: global name -> file index.  -> {relative path: text}
    decoys: every file also defines an unrelated, never referenced global for each movable global that lives in
    another file, under the same name (a name only means something inside its own file)"""
    texts = {0: [], 1: [], 2: []}
    needs = {0: set(), 1: set(), 2: set()}

    def rewrite(text, here):
        def rep(m):
            name = m.group(1)
            there = assign[name]
            if there == here:
                return name
            needs[here].add(there)
            return f"{ALIAS[there]}.{name}"
        return REF_RE.sub(rep, text)

    for name in perm:
        text = dict(base.globs)[name]
        f = assign[name]
        texts[f].append(rewrite(text, f))
    main_src = "main :: () -> i32 {\n    " + rewrite(base.main_body, 0) + "\n    0\n}"
    files = {}
    for f in (0, 1, 2):
        if f != 0 and not texts[f]:
            continue
        head = ['io :: #import("io.capy");'] if (f == 0 or any("io." in t for t in texts[f])) else []
        for other in sorted(needs[f]):
            head.append(f'{ALIAS[other]} :: #import("{FILES[other]}.capy");')
        body = texts[f] + ([main_src] if f == 0 else [])
        if decoys:
            body += [f"{name} :: 99;" for name in perm if assign[name] != f]
        files[FILES[f] + ".capy"] = "\n".join(head + body) + "\n"
    files["io.capy"] = IO
    return files


def configurations(base, full):
    names = [n for n, _ in base.globs]
    perms = list(itertools.permutations(names))
    assigns = [dict(zip(names, a)) for a in itertools.product((0, 1, 2), repeat=len(names))]
    ident = tuple(names)
    rev = tuple(reversed(names))
    confs = []
    if full:
        for p in perms:
            for a in assigns:
                confs.append((p, a))
    else:
        for p in perms:
            confs.append((p, assigns[0]))
        for a in assigns[1:]:
            confs.append((ident, a))
            confs.append((rev, a))
    return confs
