"""C15 – only const values are used as types, sizes, discriminants and comptime args.

Expression kinds x const positions.  The README rule: a variable is const iff it is immutable (`::`)
and holds a literal, a reference to another const variable, a `comptime` block or a comptime
parameter.  Kinds that the rule makes const: literal, `::` local of a literal, `::` local of a `::`
local, global, global of a global, global declared after its use, imported global, `::` local /
global holding a comptime block, comptime parameter.  Kinds it makes non-const: `:=` local, `::`
local of a `:=` local, runtime parameter, call, struct member of a runtime value, arithmetic on
runtime values.  (Arithmetic on literals, parenthesised literals and a bare `comptime {..}` in the
position are not judged: the rule does not mention them.)

Positions: array length, enum discriminant, comptime argument (integers); type annotation, comptime
`type` argument (types).  Accepted array lengths are observed (`len`, last element); accepted
comptime arguments and annotations are executed.
"""
import time

from . import core
from .core import Case

BASE = '''printf :: (f: str, n: i64) extern;
mark :: (n: i64) { printf("\\n@%ld\\n", n); }
pr :: (v: i64) { printf("%ld ", v); }
other :: #import("other.capy");
gen :: (comptime n: i64) -> i64 { n * 2 }
gent :: (comptime T: type, v: T) -> T { v }
three_usize :: () -> usize { 3 }
three_u8 :: () -> u8 { 3 }
three_i64 :: () -> i64 { 3 }
NS_usize :: struct { n: usize };
NS_u8 :: struct { n: u8 };
NS_i64 :: struct { n: i64 };
GN_usize : usize : 3;
GN_u8 : u8 : 3;
GN_i64 : i64 : 3;
GN2_usize :: GN_usize;
GN2_u8 :: GN_u8;
GN2_i64 :: GN_i64;
GC_usize : usize : comptime { 1 + 2 };
GC_u8 : u8 : comptime { 1 + 2 };
GC_i64 : i64 : comptime { 1 + 2 };
mk_ty :: () -> type { i32 }
TS :: struct { t: type };
GT :: i32;
GT2 :: GT;
GTC :: comptime { i32 };
'''
AFTER = '''GLATE_usize : usize : 3;
GLATE_u8 : u8 : 3;
GLATE_i64 : i64 : 3;
GTLATE :: i32;
'''
OTHER = '''ON_usize : usize : 3;
ON_u8 : u8 : 3;
ON_i64 : i64 : 3;
ON2_usize :: ON_usize;
ON2_u8 :: ON_u8;
ON2_i64 :: ON_i64;
OT :: i32;
'''

# kind -> (local setup, expression, const?)   const? None = not judged
INT_KINDS = {
    "literal": ("", "3", True),
    "local-const": ("n1 : TY : 3;", "n1", True),
    "local-const-of-const": ("n1 : TY : 3; n2 :: n1;", "n2", True),
    "local-const-comptime": ("nc : TY : comptime { 1 + 2 };", "nc", True),
    "global": ("", "GN_TY", True),
    "global-of-global": ("", "GN2_TY", True),
    "global-comptime": ("", "GC_TY", True),
    "global-declared-later": ("", "GLATE_TY", True),
    "imported-global": ("", "other.ON_TY", True),
    "imported-global-of-global": ("", "other.ON2_TY", True),
    "local-mut": ("m1 : TY = 3;", "m1", False),
    "local-const-of-mut": ("m1 : TY = 3; n3 :: m1;", "n3", False),
    "local-mut-without-value": ("mv : TY;", "mv", False),
    "local-const-of-mut-without-value": ("mv : TY; n5 :: mv;", "n5", False),
    "local-const-of-const-of-mut": ("m1 : TY = 3; n3 :: m1; n6 :: n3;", "n6", False),
    "local-mut-assigned-later": ("mv : TY; mv = 3;", "mv", False),
    "local-const-of-call": ("n4 :: three_TY();", "n4", False),
    "call": ("", "three_TY()", False),
    "member": ("s := NS_TY.{ n = 3 };", "s.n", False),
    "runtime-param": (None, "k", False),
    "arith-runtime": ("m1 : TY = 2;", "m1 + 1", False),
    # globals that are not const themselves (the declaration has to be reported, with or without a type annotation)
    "global-of-call-annotated": ("GLOBAL:GBC_UID : TY : three_TY();", "GBC_UID", False),
    "global-of-call": ("GLOBAL:GBU_UID :: three_TY();", "GBU_UID", False),
    "global-of-bad-global-annotated": ("GLOBAL:GBD_UID : TY : three_TY();\nGBE_UID : TY : GBD_UID;", "GBE_UID", False),
    "literal-arith": ("", "1 + 2", None),
    "paren-literal": ("", "(3)", None),
    "bare-comptime": ("", "comptime { 3 }", None),
}
TYPE_KINDS = {
    "literal": ("", "i32", True),
    "local-const": ("T1 :: i32;", "T1", True),
    "local-const-of-const": ("T1 :: i32; T2 :: T1;", "T2", True),
    "local-const-comptime": ("TC :: comptime { i32 };", "TC", True),
    "global": ("", "GT", True),
    "global-of-global": ("", "GT2", True),
    "global-comptime": ("", "GTC", True),
    "global-declared-later": ("", "GTLATE", True),
    "imported-global": ("", "other.OT", True),
    "local-mut": ("T3 := i32;", "T3", False),
    "local-const-of-mut": ("T3 := i32; T4 :: T3;", "T4", False),
    "local-const-of-const-of-mut": ("T3 := i32; T4 :: T3; T6 :: T4;", "T6", False),
    "local-const-of-call": ("T5 :: mk_ty();", "T5", False),
    "call": ("", "mk_ty()", False),
    "member": ("ts := TS.{ t = i32 };", "ts.t", False),
    "runtime-param": (None, "k", False),
}


def int_cases():
    cases = []
    uid = 0
    for kind, (setup0, expr0, const) in INT_KINDS.items():
        for pos in ("array-length", "discriminant", "comptime-arg"):
            uid += 1
            if const is None:
                continue
            decls = ""
            ty = {"array-length": "usize", "discriminant": "u8", "comptime-arg": "i64"}[pos]
            setup = setup0.replace("TY", ty) if setup0 is not None else None
            expr = expr0.replace("TY", ty).replace("UID", str(uid))
            gdecl = ""
            if setup is not None and setup.startswith("GLOBAL:"):
                gdecl, setup = setup[len("GLOBAL:"):].replace("UID", str(uid)) + "\n", ""
            if pos == "array-length":
                use = f"arr : [{expr}]i32; arr[2] = 7; pr(i64.(arr.len)); pr(i64.(arr[2]));"
                exp = "3 7 "
            elif pos == "discriminant":
                use = f"En{uid} :: enum {{ A | {expr}, B | 9 }}; e : En{uid} = En{uid}.A; if #is_variant(e, En{uid}.A) {{ pr(1); }}"
                exp = "1 "
            else:
                use = f"pr(gen({expr}));"
                exp = "6 "
            if setup is None:
                decls = f"h{uid} :: (k: {ty}) {{\n{use}\n}}"
                body = f"h{uid}(3);"
            else:
                body = (setup + "\n" if setup else "") + use
            decls = gdecl + decls
            cases.append(Case(f"int/{kind}/{pos}", body, exp if const else None, decls=decls, accept=const,
                              reject_re=None if const else ("globals must be constant" if gdecl else "compile-time|constant|const")))
    # comptime parameter used in const positions
    uid += 1
    cases.append(Case("int/comptime-param/array-length", f"cp{uid}(3);", "3 ",
                      decls=f"cp{uid} :: (comptime n: usize) {{ arr : [n]i32; pr(i64.(arr.len)); }}"))
    uid += 1
    cases.append(Case("int/comptime-param/comptime-arg", f"cq{uid}(3);", "6 ",
                      decls=f"cq{uid} :: (comptime n: i64) {{ pr(gen(n)); }}"))
    # comptime value parameters that come *after* runtime parameters (their index among the comptime parameters differs
    # from their index among all parameters)
    uid += 1
    cases.append(Case("int/comptime-param-after-runtime/array-length", f"cr{uid}(7, 3);", "3 7 ",
                      decls=f"cr{uid} :: (tag: i32, comptime n: usize) {{ arr : [n]i32; pr(i64.(arr.len)); pr(i64.(tag)); }}"))
    uid += 1
    cases.append(Case("int/two-comptime-params-after-runtime/array-length", f"cs{uid}(7, 2, 5);", "2 5 7 ",
                      decls=f"cs{uid} :: (tag: i32, comptime rows: usize, comptime cols: usize) {{ a : [rows]i32; b : [cols]u8; pr(i64.(a.len)); pr(i64.(b.len)); pr(i64.(tag)); }}"))
    uid += 1
    cases.append(Case("int/comptime-param-between-runtime/comptime-arg", f"cv{uid}(1, 4, 2);", "8 3 ",
                      decls=f"cv{uid} :: (x: i64, comptime n: i64, y: i64) {{ pr(gen(n)); pr(x + y); }}"))
    uid += 1
    cases.append(Case("int/comptime-param-after-runtime/discriminant", f"cw{uid}(1, 5);", "1 ",
                      decls=f"cw{uid} :: (x: i64, comptime d: u8) {{ Ed{uid} :: enum {{ A | d, B | 200 }}; e : Ed{uid} = Ed{uid}.A; if #is_variant(e, Ed{uid}.A) {{ pr(x); }} }}"))
    return cases


def type_cases():
    cases = []
    uid = 100
    for kind, (setup, expr, const) in TYPE_KINDS.items():
        for pos in ("annotation", "comptime-arg", "array-element"):
            uid += 1
            decls = ""
            if pos == "annotation":
                use = f"x : {expr} = 5; pr(i64.(x));"
                exp = "5 "
            elif pos == "comptime-arg":
                use = f"pr(i64.(gent({expr}, 5)));"
                exp = "5 "
            else:
                use = f"ar : [2]{expr}; ar[1] = 4; pr(i64.(ar[1]));"
                exp = "4 "
            if setup is None:
                decls = f"ht{uid} :: (k: type) {{\n{use}\n}}"
                body = f"ht{uid}(i32);"
            else:
                body = (setup + "\n" if setup else "") + use
            cases.append(Case(f"type/{kind}/{pos}", body, exp if const else None, decls=decls, accept=const))
    uid += 1
    cases.append(Case("type/comptime-param/annotation", f"ct{uid}(i32);", "5 ",
                      decls=f"ct{uid} :: (comptime T: type) {{ x : T = 5; pr(i64.(x)); }}"))
    uid += 1
    cases.append(Case("type/comptime-param/comptime-arg", f"cu{uid}(i32);", "5 ",
                      decls=f"cu{uid} :: (comptime T: type) {{ pr(i64.(gent(T, 5))); }}"))
    uid += 1
    cases.append(Case("type/comptime-params-after-runtime/annotation", f"cx{uid}(9, i64, 3);", "3 9 9 ",
                      decls=f"cx{uid} :: (v: i64, comptime T: type, comptime n: usize) {{ arr : [n]T; arr[0] = v; pr(i64.(arr.len)); pr(i64.(arr[0])); pr(v); }}"))
    return cases


def length_value_cases():
    """an accepted const array length is exactly the value the expression denotes"""
    cases = []
    for n in (1, 2, 5, 17, 100):
        for kind, setup, expr in (("literal", "", str(n)), ("local-const", f"n1 :: {n};", "n1"),
                                  ("local-const-of-const", f"n1 :: {n}; n2 :: n1;", "n2"),
                                  ("local-comptime", f"nc :: comptime {{ {n - 1} + 1 }};", "nc")):
            body = (setup + "\n" if setup else "") + f"arr : [{expr}]u8; arr[{n - 1}] = 9; pr(i64.(arr.len)); pr(i64.(arr[{n - 1}]));"
            cases.append(Case(f"len/{kind}/{n}", body, f"{n} 9 "))
    return cases


def run(tier, seed):
    started = time.time()
    cases = int_cases() + type_cases() + length_value_cases()
    runner = core.Runner("c15", batch_size=40, prelude=BASE)
    runner.extra_files = {"other.capy": OTHER}
    runner.suffix = AFTER  # globals declared after every use
    mism = runner.run(cases)
    n_acc = sum(1 for c in cases if c.accept)
    if n_acc < 30 or len(cases) - n_acc < 20:
        core.machinery_failure("vacuous run")
    coverage = {
        "states": len(cases),
        "transitions": len(cases),
        "traces_validated_against_impl": len(cases),
        "exhaustive": True,
        "rule": "a case = (expression kind, const position); each compiled by the real CLI; accepted ones are executed",
        "bounds_completed": {"integer_kinds": list(INT_KINDS), "type_kinds": list(TYPE_KINDS),
                             "positions": ["array-length", "discriminant", "comptime-arg", "annotation", "array-element"],
                             "expected_accept": n_acc, "expected_reject": len(cases) - n_acc},
        "distinct_outcomes": len({c.expected for c in cases if c.accept}) + 1,
        "compilations": runner.compiles,
        "samples": [{"case": c.key, "body": c.body, "accept": c.accept} for c in (cases[0], cases[len(cases) // 2], cases[-1])],
    }
    core.finish("C15", tier, seed, started, coverage, mism, None, assumptions=[
        "arithmetic on literals, parenthesised literals and a bare comptime block in the position are not judged",
    ])
