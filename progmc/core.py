"""Shared machinery of the program-level engines: the CLI driver, batching of many cases into one
program, mapping of diagnostics back to cases, known findings (defect models), evidence and
replay files.

Everything a check decides is decided on the real `capy` CLI built from /repo's working tree
(/verif/target/release/capy); the reference models live in the per-property modules.
"""
import concurrent.futures
import fnmatch
import hashlib
import json
import os
import re
import shutil
import subprocess
import sys
import time

VERIF = os.path.dirname(os.path.dirname(os.path.abspath(__file__)))
CAPY = os.path.join(VERIF, "target", "release", "capy")
WORK = os.path.join(VERIF, "work", "progmc")
MOD_DIR = os.path.join(WORK, "mod")
THREADS = 16

PRELUDE = '''printf :: (f: str, n: i64) extern;
putchar :: (c: i32) -> i32 extern;
mark :: (n: i64) { printf("\\n@%ld\\n", n); }
'''


def machinery_failure(msg):
    print(f"MACHINERY FAILURE: {msg}")
    sys.exit(2)


def setup_workdir(tag):
    """a fresh scratch directory for this run, and a fresh copy of /repo/core as the module dir"""
    root = os.path.join(WORK, tag)
    shutil.rmtree(root, ignore_errors=True)
    os.makedirs(root, exist_ok=True)
    shutil.rmtree(MOD_DIR + "." + tag, ignore_errors=True)
    mod = MOD_DIR + "." + tag
    os.makedirs(mod, exist_ok=True)
    shutil.copytree("/repo/core", os.path.join(mod, "core"))
    if not os.path.exists(CAPY):
        machinery_failure(f"{CAPY} does not exist (run ./check build)")
    return root, mod


class Result:
    """what one invocation of the CLI (and of the built executable) did"""

    def __init__(self):
        self.compile_rc = None
        self.compile_out = ""
        self.diags = []  # (severity, message, file, line, col)
        self.panicked = False
        self.internal_error = ""  # cranelift / verifier / assert text
        self.object_exists = False
        self.exe_exists = False
        self.run_rc = None
        self.run_out = b""
        self.timed_out = False

    @property
    def errors(self):
        return [d for d in self.diags if d[0] == "error"]

    def summary(self):
        return {
            "compile_rc": self.compile_rc,
            "errors": [f"{d[2]}:{d[3]}:{d[4]}: {d[1]}" for d in self.errors][:8],
            "panicked": self.panicked,
            "internal_error": self.internal_error[:300],
            "object": self.object_exists,
            "exe": self.exe_exists,
            "run_rc": self.run_rc,
            "run_out": self.run_out[:600].decode("utf8", "replace"),
            "timed_out": self.timed_out,
        }


DIAG_RE = re.compile(r"^(error|warning|help): (.*)$")
AT_RE = re.compile(r"^\s*--> at (.*):(\d+):(\d+)\s*$")


def parse_diags(text):
    diags = []
    lines = text.split("\n")
    i = 0
    while i < len(lines):
        m = DIAG_RE.match(lines[i])
        if m:
            sev, msg = m.group(1), m.group(2)
            j = i + 1
            # the message can span lines; the location line follows
            while j < len(lines) and j < i + 12:
                a = AT_RE.match(lines[j])
                if a:
                    if sev != "help":
                        diags.append((sev, msg, a.group(1), int(a.group(2)), int(a.group(3))))
                    break
                if DIAG_RE.match(lines[j]):
                    break
                j += 1
            else:
                pass
        i += 1
    return diags


def run_capy(jobdir, files, mod_dir, main="main.capy", run=True, extra_args=(), compile_timeout=120,
             run_timeout=20, env_extra=None, exe_args=(), keep=False):
    """writes `files` (relative path -> text) into jobdir, builds main with the real CLI and runs
    the executable"""
    if not keep:
        shutil.rmtree(jobdir, ignore_errors=True)
    os.makedirs(jobdir, exist_ok=True)
    for rel, text in files.items():
        p = os.path.join(jobdir, rel)
        os.makedirs(os.path.dirname(p), exist_ok=True)
        with open(p, "w") as f:
            f.write(text)
    res = Result()
    env = dict(os.environ)
    env.pop("RUST_BACKTRACE", None)
    if env_extra:
        env.update(env_extra)
    cmd = [CAPY, "build", main, "--mod-dir", mod_dir, "--color", "never", *extra_args]
    try:
        p = subprocess.run(cmd, cwd=jobdir, stdout=subprocess.PIPE, stderr=subprocess.STDOUT,
                           timeout=compile_timeout, env=env)
        res.compile_rc = p.returncode
        res.compile_out = p.stdout.decode("utf8", "replace")
    except subprocess.TimeoutExpired as e:
        res.timed_out = True
        res.compile_out = (e.stdout or b"").decode("utf8", "replace")
        return res
    out = res.compile_out
    res.diags = parse_diags(out)
    res.panicked = res.compile_rc == 101 or "panicked at" in out
    for needle in ("Error defining function", "Cranelift Error", "VerifierError", "verifier error",
                   "comptime compilation panicked", "UNSAFE TO COMPILE"):
        if needle in out:
            idx = out.index(needle)
            res.internal_error = out[idx:idx + 400]
            break
    stem = os.path.splitext(os.path.basename(main))[0]
    res.object_exists = os.path.exists(os.path.join(jobdir, "out", stem + ".o"))
    exe = os.path.join(jobdir, "out", stem)
    res.exe_exists = os.path.exists(exe)
    if run and res.exe_exists and res.compile_rc == 0:
        try:
            p = subprocess.run([exe, *exe_args], cwd=jobdir, stdout=subprocess.PIPE, stderr=subprocess.DEVNULL,
                               timeout=run_timeout, env=env)
            res.run_rc = p.returncode
            res.run_out = p.stdout
        except subprocess.TimeoutExpired as e:
            res.timed_out = True
            res.run_out = e.stdout or b""
    return res


class Case:
    """one independent test case inside a batch program.

    key      stable identifier (used by known findings and evidence)
    decls    top-level declarations private to the case (names must carry the case's prefix)
    body     statements of the case function
    expected the bytes the body must print (str), or None if only acceptance matters
    accept   True: must compile without error; False: must be rejected with >= 1 error inside the case
    fault    if set: the case ends the process with status 1 and this text in its last output line
    """

    def __init__(self, key, body, expected="", decls="", accept=True, fault=None, meta=None, reject_re=None):
        self.key = key
        self.body = body
        self.expected = expected
        self.decls = decls
        self.accept = accept
        self.fault = fault
        self.meta = meta or {}
        self.reject_re = reject_re

    def source_alone(self):
        return render_batch([self], getattr(self, "prelude", PRELUDE), suffix=getattr(self, "suffix", ""))[0]


def render_batch(cases, prelude=PRELUDE, extra_top="", suffix=""):
    """-> (source text, [(first_line, last_line)] per case)"""
    lines = prelude.rstrip("\n").split("\n")
    if extra_top:
        lines += extra_top.rstrip("\n").split("\n")
    ranges = []
    for i, c in enumerate(cases):
        start = len(lines) + 1
        if c.decls:
            lines += c.decls.rstrip("\n").split("\n")
        lines.append(f"case_{i} :: () {{")
        lines += ["    " + l for l in c.body.rstrip("\n").split("\n")]
        lines.append("}")
        ranges.append((start, len(lines)))
    lines.append("main :: () -> i32 {")
    for i, _ in enumerate(cases):
        lines.append(f"    mark({i}); case_{i}();")
    lines.append("    mark(-1);")
    lines.append("    0")
    lines.append("}")
    if suffix:
        lines += suffix.rstrip("\n").split("\n")
    return "\n".join(lines) + "\n", ranges


MARK_RE = re.compile(rb"\n@(-?\d+)\n")


def split_output(out):
    """stdout of a batch -> {case index: bytes}; index -1 marks the clean end"""
    parts = {}
    pos = 0
    cur = None
    for m in MARK_RE.finditer(out):
        if cur is not None:
            parts[cur] = out[pos:m.start()]
        cur = int(m.group(1))
        pos = m.end()
    if cur is not None:
        parts[cur] = out[pos:]
    return parts


class Mismatch:
    def __init__(self, case, kind, observed, detail=""):
        self.case = case
        self.kind = kind  # wrong-output | rejected | accepted | compiler-panic | internal-error | crash | timeout | missing-fault
        self.observed = observed
        self.detail = detail


class Runner:
    """runs cases in batches on a thread pool; every disagreement is re-run alone before it is
    reported (a case that only fails in company is reported with kind `only-in-batch`)"""

    def __init__(self, tag, batch_size=150, prelude=PRELUDE):
        self.root, self.mod = setup_workdir(tag)
        self.batch_size = batch_size
        self.prelude = prelude
        self.jobs = 0
        self.compiles = 0
        self.executions = 0
        self.cases_run = 0
        self.mismatches = []
        self.outcomes = set()
        self.samples = []
        self.extra_files = {}
        self.suffix = ""

    def _jobdir(self):
        self.jobs += 1
        return os.path.join(self.root, f"job{self.jobs}")

    def _check_batch(self, cases, jobdir):
        """-> (list of Mismatch candidates, list of cases that were not observed)"""
        src, ranges = render_batch(cases, self.prelude, suffix=self.suffix)
        files = {"main.capy": src}
        files.update(self.extra_files)
        res = run_capy(jobdir, files, self.mod)
        return self._judge(cases, ranges, res, src)

    def _judge(self, cases, ranges, res, src):
        cands = []
        unobserved = []
        if (res.timed_out and res.run_rc is None and not res.exe_exists) or res.panicked or res.internal_error:
            if len(cases) > 1:
                # a failure of the whole compilation: bisect down to the cases that cause it
                return [], ("bisect", cases)
            kind = "timeout" if res.timed_out else ("compiler-panic" if res.panicked else "internal-error")
            return [Mismatch(cases[0], kind, res.summary(), res.compile_out[-1500:])], []
        # diagnostics -> cases
        err_cases = {}
        stray = []
        for d in res.errors:
            line = d[3]
            hit = None
            for i, (a, b) in enumerate(ranges):
                if a <= line <= b:
                    hit = i
                    break
            if hit is None:
                stray.append(d)
            else:
                err_cases.setdefault(hit, []).append(d)
        any_reject = any(not c.accept for c in cases)
        if any_reject:
            # a reject batch: every case must have an error of its own
            for i, c in enumerate(cases):
                if c.accept:
                    continue
                errs = err_cases.get(i, [])
                if not errs:
                    cands.append(Mismatch(c, "accepted", res.summary(), "no error diagnostic inside the case"))
                elif c.reject_re and not any(re.search(c.reject_re, e[1]) for e in errs):
                    cands.append(Mismatch(c, "rejected-for-another-reason", res.summary(),
                                          f"expected /{c.reject_re}/, got {[e[1] for e in errs][:3]}"))
            return cands, []
        if res.errors or res.compile_rc != 0:
            for i, c in enumerate(cases):
                if i in err_cases:
                    cands.append(Mismatch(c, "rejected", res.summary(),
                                          "; ".join(f"{e[3]}:{e[4]} {e[1]}" for e in err_cases[i][:3])))
                else:
                    unobserved.append(c)
            if not err_cases:
                # errors outside of any case (or a non-zero exit without diagnostics)
                for c in cases:
                    cands.append(Mismatch(c, "rejected", res.summary(), res.compile_out[-800:]))
                return cands, []
            return cands, unobserved
        if not res.exe_exists:
            for c in cases:
                cands.append(Mismatch(c, "internal-error", res.summary(), "no executable although nothing was reported"))
            return cands, []
        self.executions += 1
        parts = split_output(res.run_out)
        ended = -1 in parts
        last_seen = max([k for k in parts if k >= 0], default=-1)
        for i, c in enumerate(cases):
            if i not in parts:
                unobserved.append(c)
                continue
            got = parts[i]
            if c.fault is not None:
                # the process must end here with status 1 and the fault text
                if i != last_seen or ended or res.run_rc != 1 or c.fault.encode() not in got or \
                        not got.startswith(c.expected.encode()):
                    cands.append(Mismatch(c, "missing-fault", {"out": got[:300].decode("utf8", "replace"), "rc": res.run_rc,
                                                              "continued": ended or i != last_seen}))
                continue
            if c.expected is None:
                continue
            if i == last_seen and not ended:
                # the process died inside this case
                cands.append(Mismatch(c, "crash", {"out": got[:300].decode("utf8", "replace"), "rc": res.run_rc,
                                                  "timed_out": res.timed_out}))
            elif got != c.expected.encode():
                cands.append(Mismatch(c, "wrong-output", {"out": got[:400].decode("utf8", "replace")},
                                      f"expected {c.expected[:400]!r}"))
        if len(self.samples) < 3 and cases:
            self.samples.append({"case": cases[0].key, "source": cases[0].source_alone()[-600:],
                                 "expected": cases[0].expected})
        return cands, unobserved

    def run(self, cases):
        cases = list(cases)
        for c in cases:
            c.prelude = self.prelude
            if self.extra_files:
                c.extra_files = self.extra_files
            if self.suffix:
                c.suffix = self.suffix
        self.cases_run += len(cases)
        accept = [c for c in cases if c.accept]
        reject = [c for c in cases if not c.accept]
        pending = []
        for group in (accept, reject):
            for i in range(0, len(group), self.batch_size):
                pending.append(group[i:i + self.batch_size])
        rounds = 0
        in_batch = {}
        with concurrent.futures.ThreadPoolExecutor(THREADS) as pool:
            while pending:
                rounds += 1
                if rounds > 200:
                    machinery_failure("batches do not converge")
                futs = [(b, pool.submit(self._check_batch, b, self._jobdir())) for b in pending]
                pending = []
                singles = []
                for b, f in futs:
                    self.compiles += 1
                    cands, unobserved = f.result()
                    if isinstance(unobserved, tuple):
                        half = (len(b) + 1) // 2
                        pending.append(b[:half])
                        pending.append(b[half:])
                        continue
                    if unobserved and len(unobserved) == len(b) and not cands:
                        machinery_failure(f"batch made no progress: {b[0].key}")
                    if len(b) == 1 and not cands and not unobserved and id(b[0]) in in_batch:
                        # failed in company, fine alone: reported with the batch it failed in
                        m = in_batch.pop(id(b[0]))
                        self.mismatches.append(Mismatch(m.case, "only-in-batch", m.observed,
                                                        f"{m.kind} inside a batch, not reproduced alone: {m.detail}"))
                    for m in cands:
                        if len(b) == 1:
                            in_batch.pop(id(m.case), None)
                            self.mismatches.append(m)
                        else:
                            singles.append(m.case)
                            in_batch[id(m.case)] = m
                    # re-batch what was not observed (after a fault / crash / rejected neighbour)
                    for i in range(0, len(unobserved), self.batch_size):
                        pending.append(unobserved[i:i + self.batch_size])
                # every candidate is confirmed alone, in a fresh directory
                seen = set()
                for c in singles:
                    if id(c) not in seen:
                        seen.add(id(c))
                        pending.append([c])
        return self.mismatches


# ---------------------------------------------------------------------------------------------
# known findings for the program-level engines
#
#   known: property=C03 finding=<slug> engine=progmc model=<defect model> [case=<glob on the case key>] :: text
#
# a mismatching case is excused by a finding iff the case key matches `case` (default *) and the
# engine's reference model, run with exactly that defect model switched on, predicts what was
# observed (`explains(model, mismatch) -> bool`, supplied by the engine).


def load_known(prop):
    res = []
    path = os.path.join(VERIF, "known_findings.txt")
    if not os.path.exists(path):
        return res
    for line in open(path):
        line = line.strip()
        if not line.startswith("known:"):
            continue
        fields, _, text = line[len("known:"):].partition(" :: ")
        kv = dict(re.findall(r"(\w+)=(\S+)", fields))
        if kv.get("property") != prop or kv.get("engine") != "progmc":
            continue
        res.append({"slug": kv.get("finding", ""), "model": kv.get("model", ""), "case": kv.get("case", "*"),
                    "kind": kv.get("kind", "*"), "text": text})
    return res


def finish(prop, tier, seed, started, coverage, mismatches, explains=None, assumptions=(), engine_name=None, wipe_replays=True):
    """writes evidence + replay files, prints the verdict lines and exits"""
    known = load_known(prop)
    hits = {}
    violations = []
    for m in mismatches:
        excused = None
        for k in known:
            if not fnmatch.fnmatch(m.case.key, k["case"]):
                continue
            if k["kind"] != "*" and k["kind"] != m.kind:
                continue
            if explains is None or explains(k["model"], m):
                excused = k
                break
        if excused:
            h = hits.setdefault(excused["slug"], [0, excused["text"], m.case.key])
            h[0] += 1
        else:
            violations.append(m)
    violations.sort(key=lambda m: (len(m.case.body), m.case.key))
    replay_dir = os.path.join(VERIF, "replays", prop)
    if wipe_replays:
        shutil.rmtree(replay_dir, ignore_errors=True)
    lines = []
    per_kind = {}
    for m in violations:
        per_kind[m.kind] = per_kind.get(m.kind, 0) + 1
        if per_kind[m.kind] > 40:
            continue
        os.makedirs(replay_dir, exist_ok=True)
        h = hashlib.sha1((m.case.key + m.case.body).encode()).hexdigest()[:16]
        path = os.path.join(replay_dir, h + ".json")
        with open(path, "w") as f:
            json.dump({"property": prop, "engine": "progmc", "case": m.case.key, "kind": m.kind,
                       "files": m.case.meta.get("files") or dict({"main.capy": m.case.meta.get("standalone") or m.case.source_alone()},
                                                                  **getattr(m.case, "extra_files", {})),
                       "standalone": bool(m.case.meta.get("standalone") or m.case.meta.get("files")),
                       "expected_exit": m.case.meta.get("exit"), "accept": m.case.accept,
                       "expected_stdout_of_case": m.case.expected, "fault": m.case.fault,
                       "dispatch": hasattr(m.case, "never"), "never": getattr(m.case, "never", None),
                       "exit_code": getattr(m.case, "exit_code", None),
                       "observed": m.observed, "detail": m.detail, "meta": m.case.meta}, f, indent=1)
        lines.append(f"VIOLATION property={prop} replay={path}  # {m.kind} :: {m.case.key} {m.detail[:120]!r}")
    coverage = dict(coverage)
    coverage["known_findings_hit"] = [{"finding": s, "cases_matched": v[0], "example_case": v[2]} for s, v in hits.items()]
    coverage["unexplained_by_kind"] = per_kind
    evidence = {
        "property_id": prop,
        "tier": tier,
        "seed": seed,
        "level": "model_checking",
        "coverage": coverage,
        "assumptions": list(assumptions),
        "wall_s": time.time() - started,
        "violations": len(violations),
    }
    os.makedirs(os.path.join(VERIF, "evidence"), exist_ok=True)
    ev = os.path.join(VERIF, "evidence", prop + ".json")
    with open(ev, "w") as f:
        json.dump(evidence, f, indent=1, default=str)
    for slug, (n, text, example) in hits.items():
        print(f"KNOWN-FINDING: property={prop} {text} [{slug}; {n} cases, e.g. {example}]")
    for l in lines:
        print(l)
    print(f"{prop} {tier}: {sum(v[0] for v in hits.values())} failing cases excused by known findings; "
          f"{len(violations)} unexplained; evidence {ev}")
    sys.exit(1 if violations else 0)


def replay(path):
    """re-executes one recorded case without any explorer"""
    rec = json.load(open(path))
    root, mod = setup_workdir("replay")
    res = run_capy(os.path.join(root, "job"), rec["files"], mod, main=(rec.get("meta") or {}).get("main", "main.capy"), env_extra={"CASE": "0"})
    print(json.dumps(res.summary(), indent=1))
    if rec.get("dispatch"):
        from . import dispatch
        if res.errors or res.panicked or res.internal_error or res.compile_rc != 0:
            print("REPLAY: reproduced (not compiled cleanly)")
            sys.exit(1)
        c = dispatch.PCase(rec["case"], "", rec["expected_stdout_of_case"], fault=rec.get("fault"), never=rec.get("never"),
                           exit_code=rec.get("exit_code") or 0)
        parts = res.run_out.split(b"\n@")
        st = int(parts[1].split(b"\n")[0]) if len(parts) == 2 else -1
        rc = (st >> 8) & 0xFF if (st & 0x7F) == 0 else -(st & 0x7F)
        j = dispatch.judge(c, rc, parts[0], res.timed_out)
        print("REPLAY: no failure reproduced" if j is None else f"REPLAY: reproduced ({j[0]}: {j[2]})")
        sys.exit(0 if j is None else 1)
    exp = rec.get("expected_stdout_of_case")
    if rec.get("standalone"):
        got = res.run_out.decode("utf8", "replace")
        ok = (not res.errors and not res.panicked and (exp is None or got.startswith(exp))
              and (rec.get("expected_exit") is None or res.run_rc == rec["expected_exit"]))
        if not rec.get("accept", True):
            ok = bool(res.errors) and not res.panicked
        print("REPLAY: no failure reproduced" if ok else "REPLAY: reproduced (see the summary above)")
        sys.exit(0 if ok else 1)
    parts = split_output(res.run_out)
    if rec.get("accept", True):
        if res.errors or res.panicked or res.internal_error or res.compile_rc != 0:
            print("REPLAY: reproduced (not compiled cleanly)")
            sys.exit(1)
        got = parts.get(0, b"")
        if rec.get("fault"):
            ok = res.run_rc == 1 and rec["fault"].encode() in got and -1 not in parts
        else:
            ok = exp is None or (got == exp.encode() and -1 in parts)
        print("REPLAY: no failure reproduced" if ok else f"REPLAY: reproduced (case printed {got[:300]!r}, expected {exp!r})")
        sys.exit(0 if ok else 1)
    else:
        ok = bool(res.errors) and not res.panicked
        print("REPLAY: no failure reproduced" if ok else "REPLAY: reproduced (accepted or crashed)")
        sys.exit(0 if ok else 1)
