"""C28 – imports resolve to the right files and each file is compiled once.

Import graphs: every directed graph (self-loops included) over the files main.capy, a.capy,
d/b.capy (thorough: also d/e/c.capy with <= 5 edges) with each edge spelled in one of three ways
(canonical relative path, `./`-prefixed, with a `x/../` detour); every file defines its own `id`
and `tag`; main prints `id` through every import path of length <= 3.  A reference resolver
(normalise the path relative to the importing file's directory) predicts the printed ids, and
`--verbose-ast local` must print exactly one `=== path ===` header per reachable file and none
for unreachable ones (import cycles and self-imports included).

Deviations (one per program): missing target, target not ending in `.capy` (existing or not),
a directory as target, a target outside the working directory and the module directory, a target
inside the module directory reached by a relative path, `#mod` of core / a good module / a module
without mod.capy / without src / non-alphanumeric names / a missing module.
"""
import concurrent.futures
import itertools
import os
import posixpath
import re
import shutil
import time

from . import core
from .core import Case

PRELUDE = 'printf :: (f: str, n: i64) extern;\n'
FILES3 = ["main.capy", "a.capy", "d/b.capy"]
FILES4 = FILES3 + ["d/e/c.capy"]
IDS = {"main.capy": 100, "a.capy": 200, "d/b.capy": 300, "d/e/c.capy": 400}


def alias(target):
    return "i_" + re.sub(r"\W", "_", target[:-5])


def spell(src, dst, variant):
    rel = posixpath.relpath(dst, posixpath.dirname(src) or ".")
    if variant == 0:
        return rel
    if variant == 1:
        return "./" + rel
    # a detour through an existing directory
    d = posixpath.dirname(src)
    if d:
        return "../" + posixpath.basename(d) + "/" + rel
    return "d/../" + rel


def build_files(files, edges, variant):
    """edges: set of (src, dst). -> {path: text}"""
    out = {}
    for f in files:
        lines = []
        if f == "main.capy":
            lines.append(PRELUDE.rstrip("\n"))
        for (s, d) in sorted(edges):
            if s == f:
                lines.append(f'{alias(d)} :: #import("{spell(s, d, (variant + len(s) + len(d)) % 3 if variant >= 0 else 0)}");')
        lines.append(f"id :: {IDS[f]};")
        lines.append(f"tag :: {IDS[f] + 1};")
        out[f] = lines
    # main prints ids through every import path of length <= 3
    paths = []

    def walk(cur, chain, depth):
        for (s, d) in sorted(edges):
            if s == cur:
                c2 = chain + [alias(d)]
                paths.append((c2, d))
                if depth < 3:
                    walk(d, c2, depth + 1)
    walk("main.capy", [], 1)
    body = ["main :: () -> i32 {", '    printf("%ld ", id);']
    expected = [IDS["main.capy"]]
    for chain, dst in paths:
        body.append(f'    printf("%ld ", {".".join(chain)}.id + {".".join(chain)}.tag - {".".join(chain)}.id);')
        expected.append(IDS[dst] + 1)
    body += ["    0", "}"]
    out["main.capy"] += body
    reachable = {"main.capy"}
    frontier = ["main.capy"]
    while frontier:
        cur = frontier.pop()
        for (s, d) in edges:
            if s == cur and d not in reachable:
                reachable.add(d)
                frontier.append(d)
    return {k: "\n".join(v) + "\n" for k, v in out.items()}, "".join(f"{v} " for v in expected), reachable


HEADER_RE = re.compile(r"^=== (.*) ===$", re.M)


ENTRY_SPELLINGS = ["main.capy", "./main.capy", "d/../main.capy", ".//main.capy"]


def run_graph(root, mod, idx, files, edges, variant, entry=0):
    srcs, expected, reachable = build_files(files, edges, variant)
    jobdir = os.path.join(root, f"g{idx}")
    res = core.run_capy(jobdir, srcs, mod, main=ENTRY_SPELLINGS[entry], extra_args=("--verbose-ast", "local"))
    got = res.run_out.decode("utf8", "replace")
    problems = []
    if res.errors or res.panicked or res.internal_error or res.compile_rc != 0:
        problems.append("not accepted: " + "; ".join(e[1] for e in res.errors[:2]) + res.internal_error[:100])
    else:
        if got != expected:
            problems.append(f"printed {got!r}, expected {expected!r}")
        heads = [os.path.relpath(h, jobdir) if os.path.isabs(h) else os.path.normpath(h) for h in HEADER_RE.findall(res.compile_out)]
        for f in files:
            n = heads.count(os.path.normpath(f))
            if f in reachable and n != 1:
                problems.append(f"{f} was parsed {n} times (reachable: exactly once expected)")
            if f not in reachable and n != 0:
                problems.append(f"{f} is unreachable but was parsed {n} times")
    if not problems:
        shutil.rmtree(jobdir, ignore_errors=True)
        return None
    key = "graph/" + ",".join(f"{s}>{d}" for s, d in sorted(edges)) + f"/spelling{variant}" + (f"/entry={ENTRY_SPELLINGS[entry]}" if entry else "")
    c = Case(key, "", expected, meta={"files": srcs, "exit": 0, "main": ENTRY_SPELLINGS[entry]})
    kind = "compiler-panic" if res.panicked else "rejected" if res.errors else "wrong-import-resolution"
    return core.Mismatch(c, kind, res.summary(), "; ".join(problems[:4]))


def deviation_programs(moddir_rel):
    """-> [(key, files, accept?, expected stdout or None, reject regex)]"""
    base_main = PRELUDE + 'X\nmain :: () -> i32 {\n    Y\n    0\n}\n'

    def prog(imp, use='printf("%ld ", m.id);'):
        return base_main.replace("X", imp).replace("Y", use)
    a = "id :: 200;\n"
    res = []
    res.append(("ok/plain", {"main.capy": prog('m :: #import("a.capy");'), "a.capy": a}, True, "200 ", None))
    res.append(("ok/subdir", {"main.capy": prog('m :: #import("d/e/a.capy");'), "d/e/a.capy": a}, True, "200 ", None))
    res.append(("ok/parent-from-subdir", {"main.capy": prog('m :: #import("d/b.capy");', 'printf("%ld ", m.up.id);'),
                                          "d/b.capy": 'up :: #import("../a.capy");\n', "a.capy": a}, True, "200 ", None))
    res.append(("ok/relative-to-importer-not-cwd", {"main.capy": prog('m :: #import("d/b.capy");', 'printf("%ld ", m.n.id);'),
                                                    "d/b.capy": 'n :: #import("a.capy");\n', "d/a.capy": "id :: 777;\n", "a.capy": a}, True, "777 ", None))
    res.append(("missing", {"main.capy": prog('m :: #import("nope.capy");')}, False, None, "exist|found"))
    res.append(("missing-in-subdir", {"main.capy": prog('m :: #import("d/nope.capy");'), "d/x.capy": a}, False, None, "exist|found"))
    res.append(("not-dot-capy/existing", {"main.capy": prog('m :: #import("a.txt");'), "a.txt": a}, False, None, r"\.capy"))
    res.append(("not-dot-capy/no-extension", {"main.capy": prog('m :: #import("a");'), "a": a}, False, None, r"\.capy"))
    res.append(("not-dot-capy/suffix-inside", {"main.capy": prog('m :: #import("a.capy.bak");'), "a.capy.bak": a}, False, None, r"\.capy"))
    res.append(("directory-target", {"main.capy": prog('m :: #import("dir.capy");'), "dir.capy/x.capy": a}, False, None, "exist|found"))
    res.append(("outside-cwd", {"main.capy": prog('m :: #import("../outside.capy");'), "../outside.capy": a}, False, None, "outside"))
    res.append(("outside-cwd-via-subdir", {"main.capy": prog('m :: #import("d/../../outside.capy");'), "../outside.capy": a, "d/x.capy": a}, False, None, "outside"))
    res.append(("outside-cwd-sibling-with-cwd-prefix", {"main.capy": prog('m :: #import("../w2/a.capy");'), "../w2/a.capy": a}, False, None, "outside"))
    res.append(("outside-moddir-sibling-with-moddir-prefix", {"main.capy": prog(f'm :: #import("{moddir_rel}extra/helper.capy");'),
                                                           f"{moddir_rel}extra/helper.capy": a}, False, None, "outside"))
    res.append(("outside-cwd-sibling-dash", {"main.capy": prog('m :: #import("../w-shared/a.capy");'), "../w-shared/a.capy": a}, False, None, "outside"))
    res.append(("inside-moddir-by-relative-path", {"main.capy": prog(f'm :: #import("{moddir_rel}/good/src/mod.capy");')}, True, "555 ", None))
    res.append(("mod/good", {"main.capy": prog('m :: #mod("good");')}, True, "555 ", None))
    res.append(("mod/core", {"main.capy": prog('m :: #mod("core");', 'printf("%ld ", 1);')}, True, "1 ", None))
    res.append(("mod/no-mod-file", {"main.capy": prog('m :: #mod("nomodfile");')}, False, None, "mod"))
    res.append(("mod/no-src", {"main.capy": prog('m :: #mod("nosrc");')}, False, None, "mod|exist|found"))
    res.append(("mod/missing", {"main.capy": prog('m :: #mod("absent");')}, False, None, "exist|mod|found"))
    for bad in ("a-b", "a.b", "a/b", "good/", "../good", "go od", ""):
        res.append((f"mod/non-alphanumeric/{bad!r}", {"main.capy": prog(f'm :: #mod("{bad}");')}, False, None, "alphanumeric" if bad else None))
    return res


def prepare_moddir(mod):
    for name, files in (("good", {"src/mod.capy": "id :: 555;\n"}), ("nomodfile", {"src/other.capy": "id :: 1;\n"}),
                        ("nosrc", {"mod.capy": "id :: 1;\n"}), ("a-b", {"src/mod.capy": "id :: 2;\n"})):
        for rel, text in files.items():
            p = os.path.join(mod, name, rel)
            os.makedirs(os.path.dirname(p), exist_ok=True)
            with open(p, "w") as f:
                f.write(text)


def run_deviation(root, mod, idx, key, files, accept, expected, rre):
    top = os.path.join(root, f"dv{idx}")
    shutil.rmtree(top, ignore_errors=True)
    jobdir = os.path.join(top, "w")
    res = core.run_capy(jobdir, files, mod)
    got = res.run_out.decode("utf8", "replace")
    problem = None
    if res.panicked or res.internal_error:
        problem = ("compiler-panic", "the compiler crashed")
    elif accept:
        if res.errors or res.compile_rc != 0:
            problem = ("rejected", "; ".join(e[1] for e in res.errors[:2]) or res.compile_out[-300:])
        elif got != expected:
            problem = ("wrong-import-resolution", f"printed {got!r}, expected {expected!r}")
    else:
        if not res.errors and res.compile_rc == 0:
            problem = ("accepted", f"must be rejected; program printed {got!r}")
        elif not res.errors:
            problem = ("no-diagnostic", res.compile_out[-300:])
        elif rre and not any(re.search(rre, e[1]) for e in res.errors):
            problem = ("rejected-for-another-reason", f"expected /{rre}/, got {[e[1] for e in res.errors][:2]}")
    if problem is None:
        shutil.rmtree(top, ignore_errors=True)
        return None
    c = Case("deviation/" + key, "", expected, accept=accept, meta={"files": files, "exit": 0})
    return core.Mismatch(c, problem[0], res.summary(), problem[1])


def run(tier, seed):
    started = time.time()
    quick = tier == "quick"
    root, mod = core.setup_workdir("c28")
    prepare_moddir(mod)
    jobs = []
    # all graphs over 3 files (9 possible edges incl. self-loops)
    pairs3 = [(s, d) for s in FILES3 for d in FILES3]
    for mask in range(1 << len(pairs3)):
        edges = {pairs3[i] for i in range(len(pairs3)) if mask >> i & 1}
        for variant in ((mask % 3,) if quick else (0, 1, 2)):
            # how the entry file is named on the command line (quick: one spelling per graph, rotating)
            for entry in (((mask // 3) % 4,) if quick else (0, 1, 2, 3)):
                jobs.append((FILES3, edges, variant, entry))
    if not quick:
        pairs4 = [(s, d) for s in FILES4 for d in FILES4]
        for k in range(1, 5):
            for combo in itertools.combinations(pairs4, k):
                if not any("c.capy" in s or "c.capy" in d for s, d in combo):
                    continue
                jobs.append((FILES4, set(combo), len(combo) % 3, 0))
    mism = []
    moddir_rel = os.path.relpath(mod, os.path.join(root, "dv0", "w"))
    devs = deviation_programs(moddir_rel)
    with concurrent.futures.ThreadPoolExecutor(8) as pool:
        futs = [pool.submit(run_graph, root, mod, i, f, e, v, en) for i, (f, e, v, en) in enumerate(jobs)]
        futs += [pool.submit(run_deviation, root, mod, i, *d) for i, d in enumerate(devs)]
        for f in futs:
            m = f.result()
            if m:
                mism.append(m)
    coverage = {
        "states": len(jobs) + len(devs),
        "transitions": sum(len(e) for _, e, _, _ in jobs) + len(devs),
        "traces_validated_against_impl": len(jobs) + len(devs),
        "exhaustive": True,
        "rule": "a case = one directory tree (import graph with spellings, or one deviation); each compiled by the real CLI with --verbose-ast local and executed",
        "bounds_completed": {"graphs_over_3_files": 512, "spellings": 3 if not quick else "1 per graph (rotating)",
                             "graphs_over_4_files": 0 if quick else len(jobs) - 512 * 12, "entry_spellings": ENTRY_SPELLINGS if not quick else "1 of 4 per graph (rotating)", "deviations": len(devs), "import_path_length": 3},
        "distinct_outcomes": 3,
        "compilations": len(jobs) + len(devs),
        "samples": [{"edges": sorted(e), "spelling": v} for _, e, v, _ in (jobs[1], jobs[len(jobs) // 2], jobs[-1])],
    }
    core.finish("C28", tier, seed, started, coverage, mism, None, assumptions=[
        "<= 4 files in <= 3 directories (the quantifier allows 6 files); graphs are enumerated exhaustively for 3 files",
    ])
