"""C09 – literals denote exactly their written values or are rejected.

Alphabet: values near every integer type boundary x every spelling (plain, `_` separators,
exponent forms, hex, binary) x contexts (annotated at each of the 12 integer types, unannotated
local / global, arithmetic, comparison, array element, argument); every printable char literal
and every `\\c` escape (valid or not) in char and string literals; float literals.
Oracle: accepted <=> the value fits the annotated type; an accepted literal prints its written
value.
"""
import time

from . import core
from .core import Case
from .c08 import INT_TYPES, HELPERS, show_int, print_call, wrap, f64_bits, f32_bits, to_f32, sbits

VALID_ESCAPES = {"0": 0, "a": 7, "b": 8, "n": 10, "f": 12, "r": 13, "t": 9, "v": 11, "e": 27, '"': 34, "'": 39, "\\": 92}


def fits(v, w, signed):
    return (-(1 << (w - 1)) <= v < (1 << (w - 1))) if signed else (0 <= v < (1 << w))


def values():
    vs = {0, 1, 9, 10, 255, 256, (1 << 31) - 1, 1 << 31, (1 << 32) - 1, 1 << 32, (1 << 63) - 1, 1 << 63, (1 << 64) - 1,
          1000, 3000000000, 5000000000, 10 ** 19}
    for _, w, signed in INT_TYPES:
        mx = (1 << (w - 1)) - 1 if signed else (1 << w) - 1
        for v in (mx - 1, mx, mx + 1):
            if 0 <= v < (1 << 64):
                vs.add(v)
    return sorted(vs)


def spellings(v):
    """-> [(name, text)] of spellings that denote exactly v"""
    d = str(v)
    out = [("dec", d)]
    if len(d) >= 2:
        out.append(("us1", d[0] + "_" + d[1:]))
        mid = len(d) // 2
        out.append(("usmid", d[:mid] + "_" + d[mid:]))
        out.append(("usend", d + "_"))
        out.append(("us2", d[:-1] + "__" + d[-1]))
    # every exact exponent form
    k = 1
    while v != 0 and v % (10 ** k) == 0 and k <= 19:
        m = v // (10 ** k)
        out.append((f"e{k}", f"{m}e{k}"))
        if k == 1:
            out.append(("E1", f"{m}E{k}"))
        k += 1
    if v == 0:
        out.append(("e3", "0e3"))
    out.append(("hex", hex(v)))
    out.append(("HEX", "0x" + hex(v)[2:].upper()))
    if v < (1 << 16) or v in ((1 << 32) - 1, (1 << 63), (1 << 64) - 1):
        out.append(("bin", bin(v)))
    return out


def int_cases(quick):
    cases = []
    vals = values()
    for v in vals:
        sp = spellings(v)
        if quick:
            sp = [s for s in sp if s[0] in ("dec", "usmid", "usend", "e1", "e3", "hex", "HEX", "bin")]
        for sname, text in sp:
            for name, w, signed in INT_TYPES:
                ok = fits(v, w, signed)
                key = f"annot/{name}/{v}/{sname}"
                if ok:
                    body = f"x : {name} = {text};\n{print_call('x', name, w, signed)}"
                    cases.append(Case(key, body, show_int(v, w, signed), meta={"v": v, "ty": name}))
                else:
                    body = f"x : {name} = {text};"
                    cases.append(Case(key, body, None, accept=False, meta={"v": v, "ty": name}))
            # contexts without an annotation: the value must survive the defaulting rules
            exp64 = show_int(wrap(v, 64, True), 64, True)
            cast = "u64" if v >= (1 << 63) else "i64"
            obs = lambda e: f"p(i64.({cast}.({e})));"
            if sname in ("dec", "hex", "e1", "usmid"):
                cases.append(Case(f"local/{v}/{sname}", f"x := {text};\n{obs('x')}", exp64, meta={"v": v}))
                cases.append(Case(f"const/{v}/{sname}", f"x :: {text};\n{obs('x')}", exp64, meta={"v": v}))
                cases.append(Case(f"plus0/{v}/{sname}", f"x := {text} + 0;\n{obs('x')}", exp64, meta={"v": v}))
                cases.append(Case(f"array/{v}/{sname}", f"a := .[{text}, 1];\n{obs('a[0]')}", exp64, meta={"v": v}))
                half = show_int(wrap(v // 2, 64, True), 64, True)
                cases.append(Case(f"div2/{v}/{sname}", f"x := {text} / 2;\n{obs('x')}", half, meta={"v": v}))
                g = f"g_{v}_{sname}"
                cases.append(Case(f"global/{v}/{sname}", obs(g), exp64, decls=f"{g} :: {text};\n",
                                  meta={"v": v, "may_reject": v > (1 << 31) - 1}))
                if v > 0:
                    other = str(v - 1)
                    cases.append(Case(f"cmp/{v}/{sname}",
                                      f"if {text} > {other} {{ p(1); }} else {{ p(0); }}\n"
                                      f"if {other} < {text} {{ p(1); }} else {{ p(0); }}\n"
                                      f"if {text} == {other} {{ p(1); }} else {{ p(0); }}",
                                      "1\n1\n0\n", meta={"v": v}))
                for name, w, signed in INT_TYPES:
                    if w == 128 or not fits(v, w, signed):
                        continue
                    h = f"id_{name}_{v}_{sname}"
                    cases.append(Case(f"arg/{name}/{v}/{sname}", print_call(f"{h}({text})", name, w, signed),
                                      show_int(v, w, signed), decls=f"{h} :: (a: {name}) -> {name} {{ a }}\n",
                                      meta={"v": v, "ty": name}))
    # positions where the integer type of the literal comes from somewhere else than a plain annotation of the literal itself
    for v in vals:
        for sname, text in spellings(v):
            if sname not in ("dec", "hex"):
                continue
            for name, w, signed in INT_TYPES:
                if name in ("isize", "usize"):
                    continue
                ok = fits(v, w, signed)
                u = f"{name}_{v}_{sname}"
                unwrapped = lambda e: f"#unwrap({e}, {name})"
                forms = {
                    "optional-annotation": ("", f"x : ?{name} = {text};", unwrapped("x")),
                    "optional-argument": (f"ho_{u} :: (a: ?{name}) -> {name} {{ #unwrap(a, {name}) }}\n", "", f"ho_{u}({text})"),
                    "struct-member": (f"SM_{u} :: struct {{ g: u8, m: {name} }};\n", f"s := SM_{u}.{{ g = 1, m = {text} }};", "s.m"),
                    "optional-struct-member": (f"SO_{u} :: struct {{ g: u8, m: ?{name} }};\n", f"s := SO_{u}.{{ g = 1, m = {text} }};", unwrapped("s.m")),
                    "return-value": (f"hr_{u} :: () -> {name} {{ return {text}; }}\n", "", f"hr_{u}()"),
                    "optional-return-value": (f"hq_{u} :: () -> ?{name} {{ return {text}; }}\n", f"x := hq_{u}();", unwrapped("x")),
                    "array-element": ("", f"a : [2]{name} = .[{text}, 1];", "a[0]"),
                    "assignment": ("", f"x : {name} = 0; x = {text};", "x"),
                    "error-union-annotation": ("", f"x : LitErr!{name} = {text};", unwrapped("x")),
                }
                for form, (decls, setup, expr) in forms.items():
                    key = f"typed/{form}/{name}/{v}/{sname}"
                    if ok:
                        cases.append(Case(key, setup + "\n" + print_call(expr, name, w, signed), show_int(v, w, signed), decls=decls,
                                          meta={"v": v, "ty": name}))
                    else:
                        cases.append(Case(key, setup + "\n" + print_call(expr, name, w, signed), None, decls=decls, accept=False, meta={"v": v, "ty": name}))
    # values that do not fit in 64 bits are rejected in every spelling
    for text in ("18446744073709551616", "99999999999999999999", "2e19", "1e20", "0x10000000000000000",
                 "0b" + "1" * 65, "184467440737095516_16"):
        cases.append(Case(f"toobig/{text}", f"x := {text};", None, accept=False, meta={}))
        cases.append(Case(f"toobig-u64/{text}", f"x : u64 = {text};", None, accept=False, meta={}))
    return cases


def char_cases():
    cases = []
    body, exp = [], []
    for c in range(32, 127):
        ch = chr(c)
        if ch in ("'", "\\"):
            continue
        body.append(f"p(i64.(u8.('{ch}')));")
        exp.append(f"{c}\n")
    cases.append(Case("char/printable", "\n".join(body), "".join(exp)))
    for c in range(33, 127):
        e = chr(c)
        lit = f"'\\{e}'"
        if e in VALID_ESCAPES:
            cases.append(Case(f"char/escape/{c}", f"p(i64.(u8.({lit})));", f"{VALID_ESCAPES[e]}\n"))
        else:
            cases.append(Case(f"char/escape/{c}", f"x := {lit};", None, accept=False))
    cases.append(Case("char/empty", "x := '';", None, accept=False))
    cases.append(Case("char/two", "x := 'ab';", None, accept=False))
    cases.append(Case("char/non-u8", "x := '€';", None, accept=False))
    return cases


def string_cases():
    cases = []
    # printable contents (without `%`, which printf would interpret)
    text = "".join(chr(c) for c in range(32, 127) if chr(c) not in ('"', "\\", "%"))
    cases.append(Case("str/printable", f'printf("{text}", 0);', text))
    for c in range(33, 127):
        e = chr(c)
        lit = f'"<\\{e}>"'
        if e in VALID_ESCAPES:
            if e == "0":
                cases.append(Case(f"str/escape/{c}", f"printf({lit}, 0);", "<"))
            else:
                cases.append(Case(f"str/escape/{c}", f"printf({lit}, 0);", "<" + chr(VALID_ESCAPES[e]) + ">"))
        else:
            cases.append(Case(f"str/escape/{c}", f"x := {lit};", None, accept=False))
    cases.append(Case("str/all-escapes", 'printf("a\\tb\\nc\\\\d\\"e\\\'f\\ag", 0);', "a\tb\nc\\d\"e'f\x07g"))
    return cases


FLOATS = ["0.0", "1.0", "0.5", "1.5", "0.1", "3.14159", "2.718281828459045", "1.0e10", "1.5e3", "1.5E3", "1.5e+3", "1.5e-3",
          "1_0.5", "10.2_5", ".5", ".25e2", "123456789.125", "1.7976931348623157e308", "2.2250738585072014e-308",
          "5.0e-324", "3.4028234e38", "1.17549435e-38", "16777217.0", "9007199254740993.0", "0.000001", "100.0",
          "4294967296.0", "1.0e-10", "65504.0", "0.333333333333333333"]


def parse_float(text):
    return float(text.replace("_", ""))


def float_cases():
    cases = []
    for t in FLOATS:
        v = parse_float(t)
        cases.append(Case(f"float/f64/{t}", f"x : f64 = {t};\npf64(x);", f"{sbits(f64_bits(v))}\n"))
        if abs(v) < 3.5e38:
            cases.append(Case(f"float/f32/{t}", f"x : f32 = {t};\npf32(x);", f"{sbits(f32_bits(to_f32(v)))}\n"))
        cases.append(Case(f"float/default/{t}", f"x := {t};\npf64(f64.(x));", None, meta={"optional": True}))
    return cases


def explains(model, m):
    meta = m.case.meta
    if model == "isize-usize-literal-unchecked":
        # the literal range check does not exist for isize / usize: any u64 value is accepted
        return m.kind == "accepted" and meta.get("ty") in ("isize", "usize")
    if model == "array-literal-items-not-widened":
        # the items of an untyped array literal stay 32-bit {uint}s even when a value needs 64 bits
        v = meta.get("v")
        return (m.kind == "wrong-output" and m.case.key.startswith("array/") and v is not None and v > 0xFFFFFFFF
                and m.observed.get("out") == f"{v & 0xFFFFFFFF}\n")
    return False


def run(tier, seed):
    started = time.time()
    quick = tier == "quick"
    runner = core.Runner("c09", batch_size=120, prelude=core.PRELUDE + HELPERS + "LitErr :: enum { Bad };\n")
    cases = int_cases(quick) + char_cases() + string_cases() + float_cases()
    cases = [c for c in cases if not c.meta.get("optional")]
    mism = runner.run(cases)
    # an unannotated global has the default integer type; a value that does not fit it may be
    # rejected (the statement only demands the written value *when accepted*)
    mism = [m for m in mism if not (m.kind == "rejected" and m.case.meta.get("may_reject"))]
    n_accept = sum(1 for c in cases if c.accept)
    coverage = {
        "states": len(cases),
        "transitions": runner.compiles + runner.executions,
        "traces_validated_against_impl": len(cases),
        "exhaustive": True,
        "rule": "states = (value, spelling, context) literal cases, each compiled by the real CLI (accepted cases also executed); "
                "an accepted case must print its written value, a rejected one must get an error of its own",
        "bounds_completed": {"values": len(values()), "integer_types": 12, "accepted_cases": n_accept,
                             "rejected_cases": len(cases) - n_accept, "float_literals": len(FLOATS),
                             "char_and_string_escapes": 94 * 2},
        "distinct_outcomes": 2 + len(values()),
        "compilations": runner.compiles,
        "samples": [{"case": c.key, "body": c.body, "accept": c.accept, "expected": c.expected} for c in (cases[7], cases[8], cases[-3])],
    }
    core.finish("C09", tier, seed, started, coverage, mism, explains, assumptions=[
        "values are < 2^64 (larger ones only as must-reject spellings); a negative number is an operator applied to a literal",
        "the escape set is the one the compiler documents: 0 a b n f r t v e \" ' \\\\",
    ])
