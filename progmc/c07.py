"""C07 (program level) – a program is built if and only if no error was reported.

Near-valid programs: the accept *and* reject cases of the C11 (switch), C13 (nominal typing), C14
(mutability), C15 (constness) and C05 (scoping) enumerations – each a well-typed program or the same
program with exactly one type-, mutability-, const- or scope-breaking deviation – are compiled one
by one by the real CLI with `--verbose-types local` (the only mode in which the CLI computes
`any_were_unsafe_to_compile` and its `assert!` is live).  Every compilation must end in exactly one
of two states:

  rejected : >= 1 error diagnostic, no object file, no executable, exit status 1
  built    : 0 error diagnostics, object file and executable exist, exit status 0, nothing flagged
             "UNSAFE TO COMPILE", no internal error text

Anything else (object with errors, silence without object, assert / panic, verifier error, link
failure) is a violation.  Which of the two states a program *should* be in is the business of the
other properties; this check only demands that the two gates agree.
"""
import concurrent.futures
import os
import shutil
import time

from . import core
from .core import Case


def collect():
    """-> [(key, source text)]"""
    from . import c11, c13, c14, c15, c05, tyir
    progs = []
    # C13
    for c in c13.gen(True):
        c.prelude = c13.BASE
        progs.append(("c13/" + c.key, c.source_alone()))
    # C14
    for i, c in enumerate(c14.gen(True)):
        if i % 3 == 0:
            c.prelude = c14.BASE
            progs.append(("c14/" + c.key, c.source_alone()))
    # C15
    for c in c15.int_cases() + c15.type_cases():
        c.prelude = c15.BASE
        c.suffix = c15.AFTER
        progs.append(("c15/" + c.key, c.source_alone(), {"other.capy": c15.OTHER}))
    # C11
    cases, types = c11.gen(True)
    decl_tys = [c11.S2] + [T for T, _, _ in types]
    foreign = [tyir.Enum("F" + T.name[1:], T.variants) for T, _, _ in types if isinstance(T, tyir.Enum)]
    prelude = c11.BASE + tyir.all_decls(decl_tys + foreign) + "\npv40 : i32 : 40;\npv41 : i32 : 41;\n"
    for i, c in enumerate(cases):
        if i % 9 == 0:
            c.prelude = prelude
            progs.append(("c11/" + c.key, c.source_alone()))
    # C05 (both global configurations that produce undefined references and those that do not)
    skels = c05.seqs(1, 2, True, c05.KINDS)
    for cfg in ((), ("a", "b")):
        prelude = c05.BASE + "opq :: (v: i64) -> i64 { v }\n" + "".join(f"{n} :: {1000 if n == 'a' else 2000};\n" for n in cfg)
        for i, s in enumerate(skels):
            if i % 11 == 0:
                c = c05.build_case(s, set(cfg), i)
                c.prelude = prelude
                progs.append((f"c05/{c.key}", c.source_alone()))
    # comptime code that reaches erroneous code, in the same file and in an imported file: the erroneous function must be
    # flagged unsafe, so it is neither compiled nor *run at compile time* (it prints a marker first)
    errs = {
        "mismatch-on-annotated-local": "bad : bool = 5;",
        "assign-to-immutable": "kk :: 1; kk = 2;",
        "call-with-wrong-arg": "takes_bool(7);",
    }
    for ename, estmt in errs.items():
        for where in ("same-file", "imported"):
            q = "lib." if where == "imported" else ""
            lib = ('printf :: (f: str, n: i64) extern;\ntakes_bool :: (b: bool) { }\n'
                   f'pick :: () -> type {{ printf("<RAN%ld>", 7); {estmt} i32 }}\n'
                   f'len_fn :: () -> usize {{ printf("<RAN%ld>", 7); {estmt} 3 }}\n'
                   'LEN :: comptime { len_fn() };\n')
            uses = {
                "comptime-type": f"T :: comptime {{ {q}pick() }};\nmain :: () -> i32 {{ v : T = 1; 0 }}\n",
                "array-length": f"main :: () -> i32 {{ arr : [{q}LEN]i32; 0 }}\n",
                "comptime-arg": f"gen :: (comptime n: usize) -> usize {{ n }}\nmain :: () -> i32 {{ gen({q}LEN); 0 }}\n",
                "comptime-local": f"main :: () -> i32 {{ x :: comptime {{ {q}len_fn() }}; 0 }}\n",
            }
            for uname, usrc in uses.items():
                if where == "imported":
                    progs.append((f"xfile/{ename}/{uname}/{where}", 'lib :: #import("lib.capy");\n' + usrc, {"lib.capy": lib}))
                else:
                    progs.append((f"xfile/{ename}/{uname}/{where}", lib + usrc))
    return progs


def classify(root, mod, idx, prog):
    key, src = prog[0], prog[1]
    files = {"main.capy": src}
    if len(prog) > 2:
        files.update(prog[2])
    jobdir = os.path.join(root, f"p{idx}")
    res = core.run_capy(jobdir, files, mod, run=False, extra_args=("--verbose-types", "local"))
    out = res.compile_out
    unsafe = "UNSAFE TO COMPILE" in out
    errors = len(res.errors)
    state = None
    problems = []
    if res.panicked:
        problems.append("the compiler panicked / an assert fired")
    elif res.timed_out:
        problems.append("timeout")
    else:
        internal = any(n in out for n in ("Error defining function", "Cranelift Error", "VerifierError", "verifier error"))
        if errors > 0:
            state = "rejected"
            if res.object_exists:
                problems.append("errors were reported but an object file was written")
            if res.exe_exists:
                problems.append("errors were reported but an executable was linked")
            if res.compile_rc != 1:
                problems.append(f"errors were reported but the exit status is {res.compile_rc}")
        else:
            state = "built"
            if internal:
                problems.append("no error diagnostic, but an internal code generation error was printed")
            if unsafe:
                problems.append("no error diagnostic, but something was flagged UNSAFE TO COMPILE")
            if not res.object_exists:
                problems.append("no error diagnostic and no object file")
            elif not res.exe_exists:
                problems.append("no error diagnostic, object written, but no executable (link failed)")
            if res.compile_rc != 0:
                problems.append(f"no error diagnostic but exit status {res.compile_rc}")
    if key.startswith("xfile/"):
        if "<RAN7>" in out:
            problems.append("code that contains a reported error was executed at compile time (its marker was printed by the compiler)")
        if state != "rejected" and not problems:
            problems.append("the program contains an error and must be rejected")
    shutil.rmtree(jobdir, ignore_errors=True)
    if not problems:
        return state, None
    c = Case(key, "", None, meta={"files": files})
    kind = "compiler-panic" if res.panicked else "gates-disagree"
    tail = out[out.rfind("panicked"):][:400] if res.panicked else out[-300:]
    return state, core.Mismatch(c, kind, res.summary(), "; ".join(problems) + " :: " + tail)


def explains(model, m):
    d = m.detail or ""
    if model == "distinct-sum-type-switch":
        return m.case.key.startswith("c11/distinct DW") and m.kind == "compiler-panic" and "entered unreachable code" in (m.detail or "")
    if model == "variant-mismatch-in-tail-panics":
        return "is not weak replaceable by" in d
    if model == "comptime-in-generic-todo":
        return "not yet implemented" in d
    return False


def run(tier, seed):
    started = time.time()
    progs = collect()
    if tier == "quick":
        progs = [p for i, p in enumerate(progs) if i % 2 == 0 or p[0].startswith("xfile/")]
    root, mod = core.setup_workdir("c07")
    mism = []
    states = {"rejected": 0, "built": 0, None: 0}
    with concurrent.futures.ThreadPoolExecutor(8) as pool:
        futs = [pool.submit(classify, root, mod, i, p) for i, p in enumerate(progs)]
        for f in futs:
            st, m = f.result()
            states[st] += 1
            if m:
                mism.append(m)
    if states["rejected"] < 100 or states["built"] < 100:
        core.machinery_failure(f"vacuous run: {states}")
    coverage = {
        "states": len(progs),
        "transitions": len(progs),
        "traces_validated_against_impl": len(progs),
        "exhaustive": True,
        "rule": "a case = one near-valid program compiled alone by the real CLI with --verbose-types local; the error gate, the unsafe flag, the object file, "
                "the link step and the exit status must agree",
        "bounds_completed": {"programs": len(progs), "sources": ["C13 nominal typing cases", "C14 mutability cases", "C15 constness cases", "C11 switch arm lists",
                                                               "C05 binding skeletons"],
                             "ended_rejected": states["rejected"], "ended_built": states["built"]},
        "distinct_outcomes": 2,
        "compilations": len(progs),
        "samples": [{"program": p[0]} for p in (progs[0], progs[len(progs) // 2], progs[-1])],
    }
    try:
        import json
        ip = json.load(open(os.path.join(core.VERIF, "evidence", "C07.inprocess.json")))
        coverage["in_process_half"] = {k: ip["coverage"].get(k) for k in ("states", "bounds_completed", "compilations_ok", "compilations_with_errors",
                                                                       "objects_generated", "failure_signatures", "known_findings_hit")}
        coverage["in_process_half"]["violations"] = ip.get("violations")
        coverage["states"] += ip["coverage"].get("states", 0)
        coverage["traces_validated_against_impl"] += ip["coverage"].get("traces_validated_against_impl", 0)
    except (OSError, ValueError, KeyError):
        pass
    core.finish("C07", tier, seed, started, coverage, mism, explains, wipe_replays=False, assumptions=[
        "which of the two end states a program should reach is decided by C05/C11/C13/C14/C15; here only the agreement of the gates is checked",
    ])
