"""C25 (program level) – every rendered diagnostic names the position where its range starts, in whichever file it lies.

The in-process half (harness `linecol-mc`) enumerates texts and offsets against LineIndex and Diagnostic::display.  This half
drives the real CLI, which builds one line index per *file*: a diagnostic located in the entry file, in a directly imported
file and in a file imported by an imported file must name the line and column of the offending token in *that* file,
whatever the newline layout of the other files is.

Enumeration: error kind (type mismatch = TyDiagnostic, undefined reference = lowering diagnostic) x which file holds the
error (entry, imported, imported twice removed) x leading lines of the erroneous file (0..5) x leading lines of the other
files (0..3) x indentation (0, 4, tab) x a multi-byte character earlier on the error line or not.  Oracle: line = number of
newlines before the token + 1, column = bytes since the start of that line + 1, computed from the text that was written.
"""
import concurrent.futures
import itertools
import os
import re
import shutil
import time

from . import core
from .core import Case

KINDS = {
    "type-mismatch": ("zq : bool = 12345;", "12345", "expected a value of `bool`"),
    "undefined-reference": ("zq := nope_name;", "nope_name", "undefined reference"),
}
HEADER_RE = re.compile(r"^error: (.*)\n\s*--> at ([^\n:]+):(\d+):(\d+)", re.M)


def filler(n, tag):
    return "".join((f"// {tag} filler {i}\n" if i % 2 else "\n") for i in range(n))


def program(kind, where, lead_err, lead_other, indent, multibyte):
    stmt, token, _ = KINDS[kind]
    pre = 'note := "é→";' + " " if multibyte else ""
    body = f"{indent}{pre}{stmt}\n"
    errfn = "bad :: () {\n" + body + "}\n"
    files = {}
    if where == "entry":
        files["main.capy"] = filler(lead_err, "m") + "main :: () { bad(); }\n" + errfn
        errfile = "main.capy"
    elif where == "imported":
        files["main.capy"] = filler(lead_other, "m") + 'h :: #import("h.capy");\nmain :: () { h.bad(); }\n'
        files["h.capy"] = filler(lead_err, "h") + errfn
        errfile = "h.capy"
    else:
        files["main.capy"] = filler(lead_other, "m") + 'h :: #import("sub/h.capy");\nmain :: () { h.go(); }\n'
        files["sub/h.capy"] = filler((lead_other + 2) % 4, "h") + 'g :: #import("g.capy");\ngo :: () { g.bad(); }\n'
        files["sub/g.capy"] = filler(lead_err, "g") + errfn
        errfile = "sub/g.capy"
    text = files[errfile].encode("utf8")
    off = text.index(token.encode())
    line = text.count(b"\n", 0, off) + 1
    col = off - (text.rfind(b"\n", 0, off) + 1) + 1
    return files, errfile, line, col


def run_one(root, mod, idx, key, params):
    kind = params[0]
    files, errfile, line, col = program(*params)
    jobdir = os.path.join(root, f"p{idx}")
    res = core.run_capy(jobdir, files, mod, run=False)
    out = res.compile_out
    problems = []
    if res.panicked or res.timed_out:
        problems.append("the compiler crashed")
    else:
        want = KINDS[kind][2]
        heads = [(m.group(1), os.path.normpath(m.group(2)), int(m.group(3)), int(m.group(4))) for m in HEADER_RE.finditer(out)]
        mine = [h for h in heads if want in h[0]]
        if not mine:
            problems.append(f"no `{want}` diagnostic was rendered")
        for msg, f, l, c in mine:
            f = os.path.relpath(f, jobdir) if os.path.isabs(f) else f
            if (f, l, c) != (errfile, line, col):
                problems.append(f"`{msg[:40]}` is located at {f}:{l}:{c}, the token starts at {errfile}:{line}:{col}")
    shutil.rmtree(jobdir, ignore_errors=True)
    if not problems:
        return None
    c = Case(key, "", None, accept=False, meta={"files": files})
    return core.Mismatch(c, "wrong-position", res.summary(), "; ".join(problems[:3]))


def run(tier, seed):
    started = time.time()
    quick = tier == "quick"
    root, mod = core.setup_workdir("c25")
    jobs = []
    leads_err = range(0, 6) if quick else range(0, 12)
    leads_other = (0, 3) if quick else (0, 1, 2, 3, 7)
    for kind, where, le, lo, indent, mb in itertools.product(KINDS, ("entry", "imported", "imported-twice"), leads_err, leads_other,
                                                            ("", "    ", "\t"), (False, True)):
        if where == "entry" and lo != leads_other[0]:
            continue
        key = f"{kind}/{where}/lead={le}/other={lo}/indent={len(indent)}{'t' if indent == chr(9) else ''}/{'multibyte' if mb else 'ascii'}"
        jobs.append((key, (kind, where, le, lo, indent, mb)))
    mism = []
    with concurrent.futures.ThreadPoolExecutor(8) as pool:
        futs = [pool.submit(run_one, root, mod, i, k, p) for i, (k, p) in enumerate(jobs)]
        for f in futs:
            m = f.result()
            if m:
                mism.append(m)
    coverage = {
        "states": len(jobs),
        "transitions": len(jobs),
        "traces_validated_against_impl": len(jobs),
        "exhaustive": True,
        "rule": "a case = one directory tree with exactly one erroneous token; compiled by the real CLI; the rendered header of its diagnostic must name "
                "the file, line and column where that token starts",
        "bounds_completed": {"kinds": list(KINDS), "error_in": ["entry", "imported", "imported-twice"], "leading_lines_of_erroneous_file": list(leads_err),
                             "leading_lines_of_other_files": list(leads_other), "indents": ["", "4 spaces", "tab"], "multibyte_before_token": [False, True]},
        "distinct_outcomes": len({(p[1][0], p[1][1]) for p in jobs}),
        "compilations": len(jobs),
        "samples": [{"case": jobs[i][0]} for i in (0, len(jobs) // 2, len(jobs) - 1)],
    }
    try:
        import json
        ip = json.load(open(os.path.join(core.VERIF, "evidence", "C25.inprocess.json")))
        coverage["in_process_half"] = {k: ip["coverage"].get(k) for k in ("states", "transitions", "bounds_completed", "distinct_outcomes")}
        coverage["in_process_half"]["violations"] = ip.get("violations")
        coverage["states"] += ip["coverage"].get("states", 0)
        coverage["transitions"] += ip["coverage"].get("transitions", 0)
        coverage["traces_validated_against_impl"] += ip["coverage"].get("traces_validated_against_impl", 0)
    except (OSError, ValueError, KeyError):
        pass
    core.finish("C25", tier, seed, started, coverage, mism, None, wipe_replays=False, assumptions=[
        "the range of a type mismatch starts at the offending value and the range of an undefined reference at the name (observed for the entry "
        "file, where the same positions are produced by the independent line counting of this check)",
    ])
