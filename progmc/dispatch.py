"""Runner for cases that may end the process (runtime faults): many case functions are compiled
into one executable whose `main` selects one of them by the environment variable CASE, and the
executable is run once per case.  A compilation that fails is bisected down to the cases that
cause it; every mismatch is confirmed by compiling and running the case alone.
"""
import concurrent.futures
import os
import threading

# process creation and teardown contend badly when many run in parallel on this kind of VM (8 parallel
# dispatchers are 10x slower than one), so the fork-heavy executions are serialised
EXEC_SLOTS = threading.Semaphore(2)

from . import core
from .core import Mismatch

DISPATCH_PRELUDE = '''fork :: () -> i32 extern;
waitpid :: (pid: i32, status: ^mut i32, options: i32) -> i32 extern;
fflush :: (stream: usize) -> i32 extern;
_exit :: (code: i32) extern;
'''


class PCase:
    """key, decls, body; expected stdout (exact when fault is None; prefix when a fault is expected);
    fault = substring that must follow the prefix, exit status 1, and `never` (a marker string) must
    not appear"""

    def __init__(self, key, body, expected, decls="", fault=None, never=None, exit_code=0, meta=None):
        self.key, self.body, self.expected, self.decls = key, body, expected, decls
        self.fault, self.never, self.exit_code = fault, never, exit_code
        self.meta = meta or {}
        self.accept = True

    def source_alone(self):
        return render([self], self.prelude)[0]


def render(cases, prelude):
    lines = (prelude.rstrip("\n") + "\n" + DISPATCH_PRELUDE).rstrip("\n").split("\n")
    ranges = []
    for i, c in enumerate(cases):
        start = len(lines) + 1
        if c.decls:
            lines += c.decls.rstrip("\n").split("\n")
        lines.append(f"case_{i} :: () {{")
        lines += ["    " + l for l in c.body.rstrip("\n").split("\n")]
        lines.append("}")
        ranges.append((start, len(lines)))
    # every case runs in a forked child of the one executable (an exec per case is far more expensive
    # than a fork); the parent prints the child's wait status after it
    lines.append("main :: () -> i32 {")
    lines.append("    st : i32 = 0;")
    for i, _ in enumerate(cases):
        lines.append(f"    fflush(0); pid{i} := fork(); if pid{i} == 0 {{ case_{i}(); fflush(0); _exit(0); }} "
                     f"waitpid(pid{i}, ^mut st, 0); printf(\"\\n@%ld\\n\", i64.(st));")
    lines.append("    fflush(0);")
    lines.append("    0")
    lines.append("}")
    return "\n".join(lines) + "\n", ranges


def judge(c, rc, out, timed_out):
    """-> None | (kind, observed, detail)"""
    got = out.decode("utf8", "replace")
    obs = {"out": got[:500], "rc": rc, "timed_out": timed_out}
    if timed_out:
        return ("timeout", obs, "")
    if c.fault is None:
        if rc != c.exit_code:
            return ("crash" if rc not in (0, 1) else "wrong-exit", obs, f"expected status {c.exit_code} and {c.expected[:200]!r}")
        if got != c.expected:
            return ("wrong-output", obs, f"expected {c.expected[:300]!r}")
        return None
    if not got.startswith(c.expected):
        return ("wrong-output", obs, f"expected prefix {c.expected[:300]!r} before the fault")
    rest = got[len(c.expected):]
    if rc != 1 or c.fault not in rest:
        return ("missing-fault", obs, f"expected {c.fault!r} and status 1 after {c.expected[:120]!r}")
    if c.never and c.never in rest:
        return ("continued-after-fault", obs, f"{c.never!r} was printed after the fault")
    return None


class DispatchRunner:
    def __init__(self, tag, prelude, group=120):
        self.root, self.mod = core.setup_workdir(tag)
        self.prelude = prelude
        self.group = group
        self.compiles = 0
        self.executions = 0
        self.jobs = 0
        self.mismatches = []
        self.outcomes = set()

    def _jobdir(self):
        self.jobs += 1
        return os.path.join(self.root, f"job{self.jobs}")

    def _compile(self, cases, jobdir):
        src, ranges = render(cases, self.prelude)
        res = core.run_capy(jobdir, {"main.capy": src}, self.mod, run=False)
        return res, ranges

    def _run_one(self, jobdir, i):
        import subprocess
        env = dict(os.environ)
        env["CASE"] = str(i)
        try:
            p = subprocess.run([os.path.join(jobdir, "out", "main")], cwd=jobdir, stdout=subprocess.PIPE,
                               stderr=subprocess.DEVNULL, timeout=20, env=env)
            return p.returncode, p.stdout, False
        except subprocess.TimeoutExpired as e:
            return None, e.stdout or b"", True

    def _do_group(self, cases):
        """-> (mismatch candidates [(case, kind, obs, detail)], groups to retry)"""
        jobdir = self._jobdir()
        res, ranges = self._compile(cases, jobdir)
        if res.panicked or res.internal_error or res.timed_out or res.errors or res.compile_rc != 0 or not res.exe_exists:
            if len(cases) > 1:
                # errors with a location: only the implicated cases are split off
                bad = set()
                for d in res.errors:
                    for i, (a, b) in enumerate(ranges):
                        if a <= d[3] <= b:
                            bad.add(i)
                if bad and not res.panicked and not res.internal_error and len(bad) < len(cases):
                    rest = [c for i, c in enumerate(cases) if i not in bad]
                    return [], [[cases[i]] for i in sorted(bad)] + [rest]
                half = (len(cases) + 1) // 2
                return [], [cases[:half], cases[half:]]
            kind = ("timeout" if res.timed_out else "compiler-panic" if res.panicked else "internal-error" if res.internal_error
                    else "rejected" if res.errors else "internal-error")
            return [(cases[0], kind, res.summary(), res.compile_out[-1200:])], []
        cands = []
        import subprocess
        try:
            with EXEC_SLOTS:
                p = subprocess.run([os.path.join(jobdir, "out", "main")], cwd=jobdir, stdout=subprocess.PIPE,
                                   stderr=subprocess.DEVNULL, timeout=30 + len(cases))
            blob = p.stdout
        except subprocess.TimeoutExpired:
            if len(cases) > 1:
                half = (len(cases) + 1) // 2
                return [], [cases[:half], cases[half:]]
            return [(cases[0], "timeout", {"timed_out": True}, "")], []
        parts = blob.split(b"\n@")
        # parts[k] ends with the output of case k; parts[k+1] starts with its wait status
        if len(parts) != len(cases) + 1:
            if len(cases) > 1:
                half = (len(cases) + 1) // 2
                return [], [cases[:half], cases[half:]]
            return [(cases[0], "crash", {"out": blob[:400].decode("utf8", "replace")}, "the dispatcher itself did not finish")], []
        pos_out = parts[0]
        for i, c in enumerate(cases):
            head, _, rest = parts[i + 1].partition(b"\n")
            try:
                st = int(head)
            except ValueError:
                core.machinery_failure(f"bad wait status {head!r} in {jobdir}")
            rc = (st >> 8) & 0xFF if (st & 0x7F) == 0 else -(st & 0x7F)
            out = pos_out
            pos_out = rest
            self.executions += 1
            self.outcomes.add((rc, out[:60]))
            j = judge(c, rc, out, False)
            if j:
                cands.append((c, *j))
        return cands, []

    def run(self, cases):
        cases = list(cases)
        for c in cases:
            c.prelude = self.prelude
        pending = [cases[i:i + self.group] for i in range(0, len(cases), self.group)]
        confirm = []
        with concurrent.futures.ThreadPoolExecutor(core.THREADS) as pool:
            while pending:
                futs = [(g, pool.submit(self._do_group, g)) for g in pending]
                pending = []
                for g, f in futs:
                    self.compiles += 1
                    cands, retry = f.result()
                    pending += [r for r in retry if r]
                    for cand in cands:
                        if len(g) == 1:
                            c, kind, obs, detail = cand
                            self.mismatches.append(Mismatch(c, kind, obs, detail))
                        else:
                            confirm.append(cand)
                if not pending and confirm:
                    # every candidate is confirmed alone
                    pending = [[cand[0]] for cand in confirm]
                    seen = {id(cand[0]): cand for cand in confirm}
                    confirm = []
                    futs = [(g, pool.submit(self._do_group, g)) for g in pending]
                    pending = []
                    for g, f in futs:
                        self.compiles += 1
                        cands, retry = f.result()
                        if cands:
                            c, kind, obs, detail = cands[0]
                            self.mismatches.append(Mismatch(c, kind, obs, detail))
                        else:
                            c, kind, obs, detail = seen[id(g[0])]
                            self.mismatches.append(Mismatch(c, "only-in-batch", obs, f"{kind} inside a group, not reproduced alone: {detail}"))
        return self.mismatches
