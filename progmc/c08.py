"""C08 – integer and float operations and casts have exact two's-complement / IEEE semantics.

Alphabet: every numeric type x every operator x every pair of boundary operands (runtime, and the
same calls inside `comptime`), every source/target pair of casts x boundary values.
Oracle: Python big-integer arithmetic wrapped to the width; exact integer->float rounding;
IEEE arithmetic through `struct` for floats.
Operands always enter through parameters of explicitly typed helper functions, so the weak
literal rules can neither fold nor retype the expression under test.
"""
import struct
import time

from . import core
from .core import Case

INT_TYPES = [("i8", 8, True), ("i16", 16, True), ("i32", 32, True), ("i64", 64, True), ("i128", 128, True),
             ("isize", 64, True), ("u8", 8, False), ("u16", 16, False), ("u32", 32, False), ("u64", 64, False),
             ("u128", 128, False), ("usize", 64, False)]
M64 = (1 << 64) - 1


def wrap(v, w, signed):
    v &= (1 << w) - 1
    if signed and v >> (w - 1):
        v -= 1 << w
    return v


def boundary(w, signed):
    if signed:
        mx, mn = (1 << (w - 1)) - 1, -(1 << (w - 1))
        vals = [0, 1, -1, 2, -2, 7, -7, mn, mn + 1, mx, mx - 1, 1 << (w // 2), -(1 << (w // 2)), 1 << (w - 2)]
    else:
        mx = (1 << w) - 1
        vals = [0, 1, 2, 3, 7, mx, mx - 1, 1 << (w // 2), (1 << (w // 2)) - 1, 1 << (w - 1), (1 << (w - 1)) - 1,
                1 << (w - 2), 5, 10]
    out = []
    for v in vals:
        if v not in out:
            out.append(v)
    return out


def lit(v, w, signed, name):
    """spelling of a value as an argument expression of type `name`"""
    if w == 128:
        u = v & ((1 << 128) - 1)
        hi, lo = u >> 64, u & M64
        if signed:
            return f"mk_i128({lit(wrap(hi, 64, True), 64, True, 'i64')}, {lo})"
        return f"mk_u128({hi}, {lo})"
    if v < 0:
        mn = -(1 << (w - 1))
        if v == mn:
            return f"-{-(mn + 1)} - 1"
        return f"-{-v}"
    return str(v)


HELPERS_128 = '''mk_i128 :: (hi: i64, lo: u64) -> i128 { (i128.(hi) << 64) | i128.(lo) }
mk_u128 :: (hi: u64, lo: u64) -> u128 { (u128.(hi) << 64) | u128.(lo) }
p128i :: (v: i128) { printf("%ld ", i64.(v >> 64)); printf("%ld\\n", i64.(u64.(v))); }
p128u :: (v: u128) { printf("%ld ", i64.(v >> 64)); printf("%ld\\n", i64.(u64.(v))); }
'''
HELPERS = '''p :: (v: i64) { printf("%ld\\n", v); }
pb :: (v: bool) { if v { printf("%ld\\n", 1); } else { printf("%ld\\n", 0); } }
f64_of :: (b: u64) -> f64 { ^f64.(rawptr.(^b))^ }
f32_of :: (b: u32) -> f32 { ^f32.(rawptr.(^b))^ }
bits64 :: (x: f64) -> u64 { ^u64.(rawptr.(^x))^ }
bits32 :: (x: f32) -> u32 { ^u32.(rawptr.(^x))^ }
pf64 :: (x: f64) { if x != x { printf("%ld\\n", -1); } else { printf("%ld\\n", i64.(bits64(x))); } }
pf32 :: (x: f32) { if x != x { printf("%ld\\n", -1); } else { printf("%ld\\n", i64.(bits32(x))); } }
''' + HELPERS_128


def show_int(v, w, signed):
    """what the program prints for an integer value of that type"""
    if w == 128:
        u = v & ((1 << 128) - 1)
        return f"{wrap(u >> 64, 64, True)} {wrap(u & M64, 64, True)}\n"
    return f"{wrap(v, 64, True) if w == 64 else v}\n"


def print_call(expr, name, w, signed):
    if w == 128:
        return f"p128{'i' if signed else 'u'}({expr});"
    return f"p(i64.({expr}));"


BIN_OPS = [("add", "+"), ("sub", "-"), ("mul", "*"), ("div", "/"), ("rem", "%"), ("and", "&"), ("or", "|"),
           ("xor", "~"), ("shl", "<<"), ("shr", ">>"), ("lt", "<"), ("gt", ">"), ("le", "<="), ("ge", ">="),
           ("eq", "=="), ("ne", "!=")]
UN_OPS = [("neg", "-"), ("not", "~"), ("pos", "+")]


def int_op(op, a, b, w, signed):
    """-> int result (wrapped), bool for comparisons, or None if the statement leaves it undefined"""
    if op == "add":
        return wrap(a + b, w, signed)
    if op == "sub":
        return wrap(a - b, w, signed)
    if op == "mul":
        return wrap(a * b, w, signed)
    if op in ("div", "rem"):
        if b == 0 or (signed and a == -(1 << (w - 1)) and b == -1):
            return None
        q = abs(a) // abs(b)
        if (a < 0) != (b < 0):
            q = -q
        return wrap(q, w, signed) if op == "div" else wrap(a - q * b, w, signed)
    if op == "and":
        return wrap(a & b, w, signed)
    if op == "or":
        return wrap(a | b, w, signed)
    if op == "xor":
        return wrap(a ^ b, w, signed)
    if op in ("shl", "shr"):
        if b < 0 or b >= w:
            return None
        return wrap(a << b, w, signed) if op == "shl" else wrap(a >> b, w, signed)
    return {"lt": a < b, "gt": a > b, "le": a <= b, "ge": a >= b, "eq": a == b, "ne": a != b}[op]


def int_cases(types, comptime):
    cases = []
    for name, w, signed in types:
        vals = boundary(w, signed)
        for opname, sym in BIN_OPS:
            is_cmp = opname in ("lt", "gt", "le", "ge", "eq", "ne")
            ret = "bool" if is_cmp else name
            h = f"h_{opname}_{name}"
            decls = f"{h} :: (a: {name}, b: {name}) -> {ret} {{ a {sym} b }}\n"
            rt_body, rt_exp = [], []
            ct_items, ct_exp = [], []
            bs = vals if opname not in ("shl", "shr") else [0, 1, w // 2, w - 1, 3]
            for a in vals:
                for b in bs:
                    r = int_op(opname, a, b, w, signed)
                    if r is None:
                        continue
                    call = f"{h}({lit(a, w, signed, name)}, {lit(b, w, signed, name)})"
                    if is_cmp:
                        rt_body.append(f"pb({call});")
                        exp = f"{1 if r else 0}\n"
                    else:
                        rt_body.append(print_call(call, name, w, signed))
                        exp = show_int(r, w, signed)
                    rt_exp.append(exp)
                    ct_items.append((call, exp))
            cases.append(Case(f"rt/int/{name}/{opname}", "\n".join(rt_body), "".join(rt_exp), decls,
                              meta={"type": name, "op": opname}))
            if comptime:
                cases.append(comptime_case(f"ct/int/{name}/{opname}", decls.replace(h, h + "_c"),
                                           [(c.replace(h, h + "_c"), e) for c, e in ct_items[:60]],
                                           ret, w, signed, is_cmp, {"type": name, "op": opname}))
        for opname, sym in UN_OPS:
            if opname == "neg" and not signed:
                continue
            h = f"h_{opname}_{name}"
            decls = f"{h} :: (a: {name}) -> {name} {{ {sym}a }}\n"
            body, exp = [], []
            for a in vals:
                r = {"neg": -a, "not": ~a, "pos": a}[opname]
                body.append(print_call(f"{h}({lit(a, w, signed, name)})", name, w, signed))
                exp.append(show_int(wrap(r, w, signed), w, signed))
            cases.append(Case(f"rt/int/{name}/{opname}", "\n".join(body), "".join(exp), decls,
                              meta={"type": name, "op": opname}))
    return cases


def comptime_case(key, decls, items, ret, w, signed, is_bool, meta):
    """evaluates every call inside one comptime block that yields an array, prints the elements"""
    n = len(items)
    arr = ", ".join(c for c, _ in items)
    body = [f"r :: comptime {{ {ret}.[{arr}] }};", "i := 0;", f"while i < {n} {{"]
    if is_bool:
        body.append("    pb(r[i]);")
    else:
        body.append("    " + print_call("r[i]", ret, w, signed))
    body += ["    i += 1;", "}"]
    exp = "".join(e for _, e in items)
    # and scalar results: a block whose own type is the result type (the scalar read-back path of the comptime evaluator,
    # one per width), for the tuples with the most extreme results
    picks = sorted(range(n), key=lambda k: (len(items[k][1]), items[k][1]))[-3:] + list(range(min(2, n)))
    for j, k in enumerate(dict.fromkeys(picks)):
        call, e = items[k]
        body.append(f"s{j} : {ret} : comptime {{ {call} }};")
        body.append("pb(s%d);" % j if is_bool else print_call(f"s{j}", ret, w, signed))
        exp += e
    return Case(key, "\n".join(body), exp, decls, meta=meta)


# ----------------------------------------------------------------------------------------------
# floats

def f64_bits(x):
    return struct.unpack("<Q", struct.pack("<d", x))[0]


def f32_bits(x):
    return struct.unpack("<I", struct.pack("<f", x))[0]


def sbits(b):
    """bit patterns are printed through an i64"""
    return wrap(b, 64, True)


def f64_from(b):
    return struct.unpack("<d", struct.pack("<Q", b))[0]


def f32_from(b):
    return struct.unpack("<f", struct.pack("<I", b))[0]


def to_f32(x):
    """round a Python float to f32 (overflow -> inf)"""
    try:
        return struct.unpack("<f", struct.pack("<f", x))[0]
    except OverflowError:
        return float("inf") if x > 0 else float("-inf")


F64_VALS = [0.0, -0.0, 1.0, -1.0, 0.5, 1.5, 3.0, 1e10, 1e-10, 1.7976931348623157e308, 5e-324, float("inf"),
            float("-inf"), float("nan"), 0.1]
F32_VALS = [0.0, -0.0, 1.0, -1.0, 0.5, 1.5, 3.0, 1e10, 1e-10, 3.4028234663852886e38, 1e-45, float("inf"),
            float("-inf"), float("nan"), 0.1]


def fdiv(a, b):
    if b == 0:
        if a != a or a == 0:
            return float("nan")
        neg = (str(a)[0] == "-") != (str(b)[0] == "-")
        return float("-inf") if neg else float("inf")
    return a / b


def float_op(op, a, b):
    try:
        if op == "add":
            return a + b
        if op == "sub":
            return a - b
        if op == "mul":
            return a * b
        if op == "div":
            return fdiv(a, b)
    except OverflowError:
        return float("inf")
    return {"lt": a < b, "gt": a > b, "le": a <= b, "ge": a >= b, "eq": a == b, "ne": a != b}[op]


def float_cases():
    cases = []
    for name, w, vals in (("f64", 64, F64_VALS), ("f32", 32, F32_VALS)):
        vals = [v if w == 64 else to_f32(v) for v in vals]
        bits = f64_bits if w == 64 else f32_bits
        mk = "f64_of" if w == 64 else "f32_of"
        pr = "pf64" if w == 64 else "pf32"
        for opname, sym in [o for o in BIN_OPS if o[0] in ("add", "sub", "mul", "div", "lt", "gt", "le", "ge", "eq", "ne")]:
            is_cmp = opname not in ("add", "sub", "mul", "div")
            h = f"h_{opname}_{name}"
            decls = f"{h} :: (a: {name}, b: {name}) -> {'bool' if is_cmp else name} {{ a {sym} b }}\n"
            body, exp = [], []
            for a in vals:
                for b in vals:
                    r = float_op(opname, a, b)
                    call = f"{h}({mk}({bits(a)}), {mk}({bits(b)}))"
                    if is_cmp:
                        body.append(f"pb({call});")
                        exp.append(f"{1 if r else 0}\n")
                    else:
                        if w == 32:
                            r = to_f32(r)
                        body.append(f"{pr}({call});")
                        exp.append("-1\n" if r != r else f"{sbits(bits(r))}\n")
            cases.append(Case(f"rt/float/{name}/{opname}", "\n".join(body), "".join(exp), decls,
                              meta={"type": name, "op": opname}))
        h = f"h_neg_{name}"
        decls = f"{h} :: (a: {name}) -> {name} {{ -a }}\n"
        body, exp = [], []
        for a in vals:
            body.append(f"{pr}({h}({mk}({bits(a)})));")
            exp.append("-1\n" if a != a else f"{sbits(bits(-a))}\n")
        cases.append(Case(f"rt/float/{name}/neg", "\n".join(body), "".join(exp), decls, meta={"type": name, "op": "neg"}))
    return cases


# ----------------------------------------------------------------------------------------------
# casts

def int_to_float_exact(n, mant, emax):
    """nearest-even rounding of the integer n to a binary float with `mant` significand bits"""
    if n == 0:
        return 0.0
    sign = -1.0 if n < 0 else 1.0
    m = abs(n)
    bl = m.bit_length()
    if bl > mant:
        shift = bl - mant
        q, rem = m >> shift, m & ((1 << shift) - 1)
        half = 1 << (shift - 1)
        if rem > half or (rem == half and (q & 1)):
            q += 1
        m = q << shift
    if m.bit_length() - 1 > emax:
        return sign * float("inf")
    return sign * float(m)  # exact: m has at most `mant` significant bits


def cast_cases(int_types, defect=None):
    cases = []
    numeric = [(n, w, s, "int") for n, w, s in int_types] + [("f32", 32, True, "float"), ("f64", 64, True, "float")]
    for sn, sw, ss, sk in numeric:
        for dn, dw, ds, dk in numeric:
            h = f"c_{sn}_{dn}"
            decls = f"{h} :: (a: {sn}) -> {dn} {{ {dn}.(a) }}\n"
            body, exp = [], []
            if sk == "int":
                for a in boundary(sw, ss):
                    arg = lit(a, sw, ss, sn)
                    if dk == "int":
                        body.append(print_call(f"{h}({arg})", dn, dw, ds))
                        exp.append(show_int(wrap(a, dw, ds), dw, ds))
                    else:
                        av = a
                        if defect == "int128-float-via-64" and sw == 128:
                            av = wrap(a, 64, ss)  # the int is truncated to its low 64 bits first
                        r = int_to_float_exact(av, 24 if dw == 32 else 53, 127 if dw == 32 else 1023)
                        body.append(f"{'pf32' if dw == 32 else 'pf64'}({h}({arg}));")
                        exp.append(f"{sbits((f32_bits if dw == 32 else f64_bits)(r))}\n")
            else:
                src_vals = [0.0, -0.0, 0.5, -0.5, 1.5, -1.5, 2.5, 127.0, 127.9, 128.0, -128.0, -128.9, 255.5, 256.0,
                            65535.0, 3e9, -3e9, 2147483648.0, 2147483520.0, 4294967296.0, 4294967040.0,
                            9007199254740992.0, 4.611686018427388e18, 9.223372036854775e18, 1.8446744073709550e19,
                            1e18, -9.223372036854775808e18, 1.2676506002282294e30, 1.7014118346046923e38]
                if sw == 32:
                    src_vals = sorted({to_f32(v) for v in src_vals})
                mk = "f64_of" if sw == 64 else "f32_of"
                bits = f64_bits if sw == 64 else f32_bits
                for a in src_vals:
                    if dk == "int":
                        t = int(a)  # truncation toward zero
                        lo, hi = (-(1 << (dw - 1)), (1 << (dw - 1)) - 1) if ds else (0, (1 << dw) - 1)
                        if not (lo <= t <= hi):
                            continue  # the statement only defines the result when it fits
                        if defect == "int128-float-via-64" and dw == 128:
                            # converted to i64 / u64 with saturation, then extended
                            lo64, hi64 = (-(1 << 63), (1 << 63) - 1) if ds else (0, (1 << 64) - 1)
                            t = min(max(t, lo64), hi64)
                        body.append(print_call(f"{h}({mk}({bits(a)}))", dn, dw, ds))
                        exp.append(show_int(t, dw, ds))
                    else:
                        r = a if dw == 64 else to_f32(a)
                        body.append(f"{'pf32' if dw == 32 else 'pf64'}({h}({mk}({bits(a)})));")
                        exp.append(f"{sbits((f32_bits if dw == 32 else f64_bits)(r))}\n")
            if body:
                cases.append(Case(f"cast/{sn}/{dn}", "\n".join(body), "".join(exp), decls, meta={"from": sn, "to": dn}))
    # bool / char
    for dn, dw, ds in int_types:
        if dw == 128:
            continue
        h = f"c_bool_{dn}"
        cases.append(Case(f"cast/bool/{dn}", f"p(i64.({h}(true))); p(i64.({h}(false)));", "1\n0\n",
                          f"{h} :: (a: bool) -> {dn} {{ {dn}.(a) }}\n", meta={"from": "bool", "to": dn}))
    h = "c_char_u8"
    cases.append(Case("cast/char/u8", f"p(i64.({h}('A'))); p(i64.({h}('~'))); p(i64.({h}('\\n')));", "65\n126\n10\n",
                      f"{h} :: (a: char) -> u8 {{ u8.(a) }}\n", meta={"from": "char", "to": "u8"}))
    h = "c_u8_char"
    cases.append(Case("cast/u8/char", f"p(i64.(u8.({h}(65)))); p(i64.(u8.({h}(255))));", "65\n255\n",
                      f"{h} :: (a: u8) -> char {{ char.(a) }}\n", meta={"from": "u8", "to": "char"}))
    # bool operators
    for opname, sym, f in (("and", "&", lambda a, b: a and b), ("or", "|", lambda a, b: a or b),
                           ("eq", "==", lambda a, b: a == b), ("ne", "!=", lambda a, b: a != b),
                           ("land", "&&", lambda a, b: a and b), ("lor", "||", lambda a, b: a or b)):
        h = f"h_{opname}_bool"
        body, exp = [], []
        for a in (False, True):
            for b in (False, True):
                body.append(f"pb({h}({str(a).lower()}, {str(b).lower()}));")
                exp.append(f"{1 if f(a, b) else 0}\n")
        cases.append(Case(f"rt/bool/{opname}", "\n".join(body), "".join(exp),
                          f"{h} :: (a: bool, b: bool) -> bool {{ a {sym} b }}\n", meta={"type": "bool", "op": opname}))
    cases.append(Case("rt/bool/not", "pb(h_not_bool(true)); pb(h_not_bool(false));", "0\n1\n",
                      "h_not_bool :: (a: bool) -> bool { !a }\n", meta={"type": "bool", "op": "not"}))
    # (ordering comparisons of `char` are not offered by the language)
    for opname, sym, f in (("eq", "==", lambda a, b: a == b), ("ne", "!=", lambda a, b: a != b)):
        h = f"h_{opname}_char"
        body, exp = [], []
        for a in ("a", "z", "A", "~"):
            for b in ("a", "z", "A", "~"):
                body.append(f"pb({h}('{a}', '{b}'));")
                exp.append(f"{1 if f(ord(a), ord(b)) else 0}\n")
        cases.append(Case(f"rt/char/{opname}", "\n".join(body), "".join(exp),
                          f"{h} :: (a: char, b: char) -> bool {{ a {sym} b }}\n", meta={"type": "char", "op": opname}))
    return cases


def rounding_values(mant):
    """integers around the midpoints between adjacent floats with `mant` significand bits: for every binade 2^e that still
    fits u64, the midpoint above a neighbour with even and with odd last bit, and the integers just below / above it
    (the tie goes to even; one above the tie must round up - also when the value is first rounded to a wider float)"""
    vals = []
    for e in range(mant + 1, 64):
        ulp = 1 << (e - mant + 1)
        for k in (0, 1, 2, 5):
            q = (1 << e) + k * ulp
            mid = q + ulp // 2
            for d in (-1, 0, 1):
                n = mid + d
                if n < (1 << 64):
                    vals.append(n)
    return vals


def rounding_cases():
    """integer -> float at the rounding boundaries, for run-time integers and for integer *literals* that are typed as a
    float directly (annotation, cast of the literal, inside a comptime block, negated)"""
    cases = []
    for fn, mant, emax in (("f32", 24, 127), ("f64", 53, 1023)):
        vals = rounding_values(mant)
        pr = "pf32" if fn == "f32" else "pf64"
        bits = f32_bits if fn == "f32" else f64_bits
        exp = "".join(f"{sbits(bits(int_to_float_exact(n, mant, emax)))}\n" for n in vals)
        h = f"rc_u64_{fn}"
        forms = {
            "runtime-u64": (f"{h} :: (a: u64) -> {fn} {{ {fn}.(a) }}\n", lambda n: f"{pr}({h}({n}));"),
            "literal-annotated": ("", lambda n: f"{{ x : {fn} = {n}; {pr}(x); }}"),
            "literal-cast": ("", lambda n: f"{pr}({fn}.({n}));"),
            "literal-argument": (f"rid_{fn} :: (a: {fn}) -> {fn} {{ a }}\n", lambda n: f"{pr}(rid_{fn}({n}));"),
            "literal-in-comptime": ("", lambda n: f"{pr}(comptime {{ {fn}.({n}) }});"),
        }
        for form, (decls, stmt) in forms.items():
            # comptime blocks are slow to evaluate one by one: every third value
            vs = vals if form != "literal-in-comptime" else vals[::3]
            ex = exp if form != "literal-in-comptime" else "".join(exp.splitlines(True)[::3])
            cases.append(Case(f"round/{fn}/{form}", "\n".join(stmt(n) for n in vs), ex, decls, meta={"from": "u64", "to": fn}))
        neg = [n for n in vals if n <= (1 << 63)]
        nexp = "".join(f"{sbits(bits(int_to_float_exact(-n, mant, emax)))}\n" for n in neg)
        cases.append(Case(f"round/{fn}/negated-literal-annotated", "\n".join(f"{{ x : {fn} = -{n}; {pr}(x); }}" for n in neg), nexp, "",
                          meta={"from": "i64", "to": fn}))
        hi = f"rc_i64_{fn}"
        neg2 = [n for n in neg if n < (1 << 63)]
        cases.append(Case(f"round/{fn}/runtime-i64-negative", "\n".join(f"{pr}({hi}(-{n}));" for n in neg2),
                          "".join(f"{sbits(bits(int_to_float_exact(-n, mant, emax)))}\n" for n in neg2),
                          f"{hi} :: (a: i64) -> {fn} {{ {fn}.(a) }}\n", meta={"from": "i64", "to": fn}))
    return cases


def implicit_cases(int_types):
    """implicit widening: offered only where the language accepts it (acceptance itself is C12's)"""
    cases = []
    numeric = [(n, w, s, "int") for n, w, s in int_types] + [("f32", 32, True, "float"), ("f64", 64, True, "float")]
    for sn, sw, ss, sk in numeric:
        for dn, dw, ds, dk in numeric:
            if sn == dn or sk != "int":
                continue
            h = f"w_{sn}_{dn}"
            decls = f"{h} :: (a: {sn}) -> {dn} {{ a }}\n"
            body, exp = [], []
            for a in boundary(sw, ss):
                arg = lit(a, sw, ss, sn)
                if dk == "int":
                    body.append(print_call(f"{h}({arg})", dn, dw, ds))
                    exp.append(show_int(wrap(a, dw, ds), dw, ds))
                    lossless = wrap(a, dw, ds) == a
                else:
                    r = int_to_float_exact(a, 24 if dw == 32 else 53, 127 if dw == 32 else 1023)
                    body.append(f"{'pf32' if dw == 32 else 'pf64'}({h}({arg}));")
                    exp.append(f"{sbits((f32_bits if dw == 32 else f64_bits)(r))}\n")
            cases.append(Case(f"implicit/{sn}/{dn}", "\n".join(body), "".join(exp), decls,
                              meta={"from": sn, "to": dn, "optional": True}))
    return cases


# ----------------------------------------------------------------------------------------------
# defect models of known findings: recompute what a case would print under the defect

def explains(model, m):
    """True iff the observed output of the mismatching case is what the defect model predicts"""
    predicted = DEFECTS.get(model, lambda case: None)(m.case)
    if predicted is None:
        return False
    return m.kind == "wrong-output" and m.observed.get("out") is not None and m.observed["out"] == predicted[:400]


def _defect_128_float(case):
    if not case.key.startswith("cast/"):
        return None
    for c in cast_cases(INT_TYPES, defect="int128-float-via-64"):
        if c.key == case.key:
            return c.expected
    return None


def explains(model, m):  # noqa: F811
    if model == "i128-div-rem":
        return (m.kind in ("internal-error", "compiler-panic") and m.case.meta.get("type") in ("i128", "u128")
                and m.case.meta.get("op") in ("div", "rem")
                and ("should be implemented in ISLE" in m.detail or "panicked" in m.detail))
    if model == "int128-float-via-64":
        predicted = _defect_128_float(m.case)
        return (predicted is not None and m.kind == "wrong-output" and predicted != m.case.expected
                and m.observed.get("out") == predicted[:400])
    return False


def run(tier, seed):
    started = time.time()
    quick = tier == "quick"
    runner = core.Runner("c08", batch_size=12, prelude=core.PRELUDE + HELPERS)
    types = list(INT_TYPES)  # every width in both tiers (a seeded change that only touched 16-bit comptime results slipped through the 8/32/64/128 quick selection)
    cases = int_cases(types, comptime=True) + float_cases() + cast_cases(INT_TYPES) + rounding_cases()
    optional = implicit_cases(INT_TYPES)
    evaluations = sum(c.expected.count("\n") for c in cases)
    mism = runner.run(cases)
    # implicit conversions: a rejected pair is simply not offered by the language
    runner2 = core.Runner("c08i", batch_size=12, prelude=core.PRELUDE + HELPERS)
    m2 = [m for m in runner2.run(optional) if m.kind not in ("rejected",)]
    offered = len(optional) - len([m for m in runner2.mismatches if m.kind == "rejected"])
    evaluations += sum(c.expected.count("\n") for c in optional)
    if evaluations < 5000:
        core.machinery_failure("vacuous run")
    coverage = {
        "states": len(cases) + len(optional),
        "transitions": evaluations,
        "traces_validated_against_impl": evaluations,
        "exhaustive": True,
        "rule": "states = (type, operator) / (source, target) cases; transitions = single evaluations (operand tuples) "
                "compiled by the real CLI, executed and compared with the reference arithmetic",
        "bounds_completed": {"int_types": [t[0] for t in types], "boundary_values_per_type": 14,
                             "float_values": 15, "cast_pairs": 14 * 14, "comptime_evaluations_per_case": 60,
                             "implicit_conversions_offered": offered},
        "distinct_outcomes": evaluations,
        "compilations": runner.compiles + runner2.compiles,
        "samples": runner.samples[:2],
    }
    core.finish("C08", tier, seed, started, coverage, mism + m2, explains, assumptions=[
        "division by zero, MIN / -1, shift amounts >= width and out-of-range float->int conversions are not generated (the statement leaves them undefined)",
        "NaN results are compared as NaN, not by payload",
        "values are boundary values and their neighbours, not all 2^64 operands",
    ])
