"""C16 – generic calls behave like calls to hand-substituted copies.

Templates: generic functions with 1-3 comptime parameters (types, integers, a struct type, a
distinct type) used in annotations, casts, array lengths, nested generic calls, inline header
references `(comptime T: type, x: T) -> T`, varargs of T and comptime blocks.  For every template,
every *sequence* of 1..3 (thorough 4) instantiation tuples from the template's argument alphabet
(so equal tuples repeat and different tuples interleave), with the generic defined in the same file
and in an imported file: the program performs the generic calls, then the same calls on
hand-substituted monomorphic copies (produced by textual substitution in the generator), and prints
every result; both must equal the value computed by the Python model of the template.
"""
import itertools
import time

from . import core
from .core import Case

BASE = '''printf :: (f: str, n: i64) extern;
mark :: (n: i64) { printf("\\n@%ld\\n", n); }
pr :: (v: i64) { printf("%ld ", v); }
other :: #import("other.capy");
P2 :: struct { a: i32, b: i32 };
P3 :: struct { a: i32, b: i32, c: i64 };
Dm :: distinct i32;
'''

BITS = {"u8": (8, False), "i8": (8, True), "u16": (16, False), "i16": (16, True), "i32": (32, True), "u32": (32, False),
        "i64": (64, True), "u64": (64, False)}


def wrap(ty, v):
    bits, signed = BITS[ty]
    v &= (1 << bits) - 1
    if signed and v >> (bits - 1):
        v -= 1 << bits
    return v


def as_i64(v):
    return wrap("i64", v)


# template: name, header (with NAME placeholder), body, params: list of kinds, alphabet of argument tuples,
#           call spelling given tuple, model(tuple) -> int, subst(tuple) -> (mono header, mono body, call args)
class Template:
    def __init__(self, name, cparams, rparams, ret, body, alphabet, model, uses=(), order=None):
        self.name, self.cparams, self.rparams, self.ret, self.body = name, cparams, rparams, ret, body
        self.alphabet, self.model, self.uses = alphabet, model, uses
        # declaration order of the parameters (default: comptime parameters first)
        self.order = order or [n for n, _ in cparams] + [n for n, _ in rparams]

    def generic_decl(self, fname, prefix=""):
        decl = {n: f"comptime {n}: {k}" for n, k in self.cparams}
        decl.update({n: f"{n}: {t}" for n, t in self.rparams})
        ps = [decl[n] for n in self.order]
        body = self.body
        for u in self.uses:
            body = body.replace(f"@{u}(", f"{prefix}{u}(")
        return f"{fname} :: ({', '.join(ps)}) -> {self.ret} {{ {body} }}"

    def mono_decl(self, fname, tup, mono_names):
        """textual substitution of the comptime arguments"""
        sub = {n: str(a) for (n, _), a in zip(self.cparams, tup)}

        def rep(text):
            import re
            for n, a in sub.items():
                text = re.sub(rf"\b{n}\b", a, text)
            return text
        ps = [f"{n}: {rep(t)}" for n, t in self.rparams]
        body = rep(self.body)
        for u in self.uses:
            # nested generic calls `@g(T, x)` become calls of the matching mono copy: `g_mono(x)`
            import re
            def fix(m):
                args = [a.strip() for a in m.group(1).split(",")]
                tmpl = TEMPLATES[u]
                nct = len(tmpl.cparams)
                key = (u, tuple(args[:nct]))
                return f"{mono_names[key]}({', '.join(args[nct:])})"
            body = re.sub(rf"@{u}\(([^()]*)\)", fix, body)
        return f"{fname} :: ({', '.join(ps)}) -> {rep(self.ret)} {{ {body} }}"

    def call(self, fname, tup):
        names = [n for n, _ in self.cparams] + [n for n, _ in self.rparams]
        if len(tup) != len(names):
            # varargs: the tuple is already in declaration order
            return f"{fname}({', '.join(str(a) for a in tup)})"
        vals = dict(zip(names, tup))
        return f"{fname}({', '.join(str(vals[n]) for n in self.order)})"

    def mono_call(self, fname, tup):
        return f"{fname}({', '.join(str(a) for a in tup[len(self.cparams):])})"


def m_inc(t):
    T, v = t
    return wrap(T, v + 1)


def m_max(t):
    T, a, b = t
    return max(a, b)


def m_len(t):
    (n,) = t
    return n * 2 + 1


def m_fill(t):
    T, n, v = t
    s = 0
    for _ in range(n):
        s = wrap(T, s + v)
    return s


def m_cast(t):
    T, v = t
    return wrap(T, v)


def m_twice(t):
    T, v = t
    return wrap(T, m_inc((T, v)) + m_inc((T, v)))


def m_sum(t):
    T = t[0]
    s = 0
    for x in t[1:]:
        s = wrap(T, s + x)
    return s


def m_ct(t):
    (n,) = t
    return n * 3 + 1


TEMPLATES = {
    "inc": Template("inc", [("T", "type")], [("v", "T")], "T", "v + 1",
                    [("u8", 255), ("u8", 7), ("i16", 32767), ("i64", 1 << 40), ("i32", -5)], m_inc),
    "max": Template("max", [("T", "type")], [("a", "T"), ("b", "T")], "T", "if a > b { a } else { b }",
                    [("u8", 200, 100), ("i8", -100, 100), ("i64", -1, 1 << 50), ("u64", 5, 9)], m_max),
    "len": Template("len", [("n", "usize")], [], "usize", "arr : [n]u16; arr.len + n + 1",
                    [(0,), (1,), (3,), (17,)], m_len),
    "fill": Template("fill", [("T", "type"), ("n", "usize")], [("v", "T")], "T",
                     "arr : [n]T; i := 0; while i < n { arr[i] = v; i += 1; } s : T = 0; i = 0; while i < n { s = s + arr[i]; i += 1; } s",
                     [("u8", 3, 100), ("u8", 2, 100), ("i32", 3, -7), ("i64", 1, 9)], m_fill),
    "cast": Template("cast", [("T", "type")], [("v", "i64")], "T", "T.(v)",
                     [("u8", 511), ("i8", 200), ("i16", 70000), ("i64", -3), ("u32", -1)], m_cast),
    "twice": Template("twice", [("T", "type")], [("v", "T")], "T", "@inc(T, v) + @inc(T, v)",
                      [("u8", 127), ("u8", 3), ("i16", 16383), ("i64", 10)], m_twice, uses=("inc",)),
    "sum": Template("sum", [("T", "type")], [("xs", "...T")], "T", "t : T = 0; i := 0; while i < xs.len { t = t + xs[i]; i += 1; } t",
                    [("u8", 200, 100), ("u8", 1, 2, 3), ("i32", -4, 9), ("i64", 5)], m_sum),
    "field": Template("field", [("S", "type")], [("s", "S")], "i32", "s.a * 10 + s.b",
                      [("P2", "P2.{ a = 1, b = 2 }"), ("P3", "P3.{ a = 3, b = 4, c = 5 }"), ("P2", "P2.{ a = 7, b = 8 }")],
                      lambda t: {"P2.{ a = 1, b = 2 }": 12, "P3.{ a = 3, b = 4, c = 5 }": 34, "P2.{ a = 7, b = 8 }": 78}[t[1]]),
    "dist": Template("dist", [("T", "type")], [("v", "T")], "i32", "i32.(v) + 1",
                     [("Dm", "Dm.(5)"), ("i32", "6"), ("Dm", "Dm.(-9)"), ("i16", "300")],
                     lambda t: {"Dm.(5)": 6, "6": 7, "Dm.(-9)": -8, "300": 301}[t[1]]),
    "mixed": Template("mixed", [("n", "usize"), ("T", "type")], [("a", "i64"), ("b", "i64")], "i64",
                      "arr : [n]T; i := 0; while i < n { arr[i] = T.(a); i += 1; } t : i64 = b; i = 0; while i < n { t = t + i64.(arr[i]); i += 1; } t",
                      [(2, "u8", 300, 1), (3, "i64", 300, 1), (0, "i16", 5, 7), (1, "i8", 200, 0)],
                      lambda t: t[3] + t[0] * wrap(t[1], t[2]), order=["a", "n", "b", "T"]),
    "two": Template("two", [("A", "type"), ("B", "type"), ("n", "usize")], [("a", "A"), ("b", "B")], "i64",
                    "x : [n]A; y : [n]B; i64.(x.len + y.len) + i64.(a) + i64.(b)",
                    [("u8", "i64", 2, 3, 4), ("i64", "u8", 2, 3, 4), ("u8", "u8", 1, 250, 5), ("i16", "i32", 0, -1, -2)],
                    lambda t: 2 * t[2] + t[3] + t[4]),
}


def make_case(tname, seq, imported, idx):
    tmpl = TEMPLATES[tname]
    prefix = "other." if imported else ""
    decls = []
    mono_names = {}
    # mono copies for every distinct tuple (and for nested templates)
    need = []
    for tup in seq:
        need.append((tname, tup))
        for u in tmpl.uses:
            need.append((u, tup[:len(TEMPLATES[u].cparams)] + tup[len(tmpl.cparams):]))
    k = 0
    ordered = []
    for name, tup in need:
        key = (name, tuple(str(a) for a in tup[:len(TEMPLATES[name].cparams)]))
        if key not in mono_names:
            k += 1
            mono_names[key] = f"mono{idx}_{k}"
            ordered.append((name, tup, key))
    # nested ones first so that substitution finds them
    for name, tup, key in sorted(ordered, key=lambda x: x[0] != "inc"):
        decls.append(TEMPLATES[name].mono_decl(mono_names[key], tup, mono_names))
    body = []
    out = []
    for tup in seq:
        body.append(f"pr(i64.({tmpl.call(prefix + 'g_' + tname, tup)}));")
        out.append(as_i64(tmpl.model(tup)))
    for tup in seq:
        key = (tname, tuple(str(a) for a in tup[:len(tmpl.cparams)]))
        body.append(f"pr(i64.({tmpl.mono_call(mono_names[key], tup)}));")
        out.append(as_i64(tmpl.model(tup)))
    key_s = f"{tname}/{'imported' if imported else 'same-file'}/" + "|".join(",".join(str(a) for a in t) for t in seq)
    return Case(key_s, "\n".join(body), "".join(f"{v} " for v in out), decls="\n".join(decls))


def run(tier, seed):
    started = time.time()
    quick = tier == "quick"
    maxlen = 3 if quick else 4
    generic_same = "\n".join(t.generic_decl("g_" + n, "g_") for n, t in TEMPLATES.items())
    generic_other = 'P2 :: struct { a: i32, b: i32 };\n' + "\n".join(t.generic_decl("g_" + n, "g_") for n, t in TEMPLATES.items())
    cases = []
    idx = 0
    for tname, tmpl in TEMPLATES.items():
        for imported in (False, True):
            if imported and tname == "field":
                continue  # the struct types live in the main file
            for length in range(1, maxlen + 1):
                if quick and imported and length > 2:
                    continue
                for seq in itertools.product(tmpl.alphabet, repeat=length):
                    idx += 1
                    cases.append(make_case(tname, seq, imported, idx))
    # comptime arguments that are spelled as named constants: of the same file or of an imported file, directly or through
    # aliases; the calling file defines unrelated constants of the same names as the imported ones (other values)
    konst = ("KN3 : usize : 3;\nKNA3 : usize : KN3;\nKNAA3 : usize : KNA3;\nKEl :: i16;\nKElA :: KEl;\nKElAA :: KElA;\n")
    decoys = ('konst :: #import("konst.capy");\nKN3 : usize : 5;\nKNA3 : usize : 6;\nKEl :: i64;\nKElA :: i64;\n'
              "LN2 : usize : 2;\nLNA2 : usize : LN2;\nLEl :: u8;\nLElA :: LEl;\n")
    named = []
    spell_n = {"konst.KN3": 3, "konst.KNA3": 3, "konst.KNAA3": 3, "LN2": 2, "LNA2": 2, "KN3": 5, "KNA3": 6}
    spell_t = {"konst.KEl": "i16", "konst.KElA": "i16", "konst.KElAA": "i16", "LEl": "u8", "LElA": "u8", "KEl": "i64", "KElA": "i64"}
    for imported in (False, True):
        pre = "other." if imported else ""
        for sp, n in spell_n.items():
            named.append(Case(f"named-arg/len/{'imported' if imported else 'same-file'}/{sp}", f"pr(i64.({pre}g_len({sp})));",
                              f"{as_i64(m_len((n,)))} "))
        for sp, t in spell_t.items():
            for v in (70000, 200, -3):
                named.append(Case(f"named-arg/cast/{'imported' if imported else 'same-file'}/{sp}/{v}", f"pr(i64.({pre}g_cast({sp}, {v})));",
                                  f"{as_i64(m_cast((t, v)))} "))
        for (sn, n), (st, t) in itertools.product(spell_n.items(), spell_t.items()):
            tup = (n, t, 300, 1)
            named.append(Case(f"named-arg/mixed/{'imported' if imported else 'same-file'}/{sn},{st}", f"pr(i64.({pre}g_mixed(300, {sn}, 1, {st})));",
                              f"{as_i64(TEMPLATES['mixed'].model(tup))} "))
    cases += named
    runner = core.Runner("c16", batch_size=60, prelude=BASE + generic_same + "\n" + decoys)
    runner.extra_files = {"other.capy": generic_other + "\n", "konst.capy": konst}
    mism = runner.run(cases)
    outcomes = {c.expected for c in cases}
    if len(cases) < 500 or len(outcomes) < 100:
        core.machinery_failure("vacuous run")
    coverage = {
        "states": len(cases),
        "transitions": sum(len(c.expected.split()) for c in cases),
        "traces_validated_against_impl": len(cases),
        "exhaustive": True,
        "rule": "a case = (template, sequence of instantiation tuples, same file / imported); generic calls and hand-substituted copies are "
                "both executed and compared with the Python model of the template",
        "bounds_completed": {"templates": list(TEMPLATES), "max_sequence_length": maxlen, "comptime_parameters": "1..3 (type, usize, i64, struct type, distinct type)"},
        "distinct_outcomes": len(outcomes),
        "compilations": runner.compiles,
        "samples": [{"case": c.key, "decls": c.decls[:300], "body": c.body[:300], "expected": c.expected} for c in (cases[0], cases[len(cases) // 2], cases[-1])],
    }
    core.finish("C16", tier, seed, started, coverage, mism, None, assumptions=[
        "the hand-substituted copy is produced by textual substitution of the comptime arguments in the generator",
    ])
