"""C19 – calls across the C boundary pass values intact.

For every signature of the families below, in both directions:

  Capy -> C : an `extern` function implemented in C prints every leaf of every argument it received and
              returns a constant; Capy prints every leaf of the result.
  C -> Capy : a C driver (extern) receives a Capy function as a function pointer, calls it with
              constants and prints every leaf of the result; the Capy function prints what it received.

The C side is compiled by the host gcc from a translation unit generated for exactly these
signatures (gcc is the reference model of the x86-64 System V convention); the transcript must equal
the constants the generator chose.

Families: every single-parameter and every return-only signature over 14 scalars (ints, floats,
bool, ^i32, ?^i32) and every struct of 1..3 fields over {u8, i16, i32, i64, f32, f64, [3]u8, [2]f32}
(thorough; quick: 1..2 fields plus a 3-field selection) plus 4/5-field structs covering sizes up to 64;
every ordered pair over a 22-type selection; for each of 12 structs the register-pressure family:
k = 0..8 leading i64 fillers, k = 0..8 leading f64 fillers, and mixed.
"""
import concurrent.futures
import itertools
import os
import shutil
import subprocess
import time

from . import core, tyir
from .core import Case
from .tyir import Arr, Struct, U8, U16, U32, U64, I8, I16, I32, I64, BOOL, F32, F64, Fresh, fmt_leaves

CTYPE = {"u8": "uint8_t", "u16": "uint16_t", "u32": "uint32_t", "u64": "uint64_t", "i8": "int8_t", "i16": "int16_t",
         "i32": "int32_t", "i64": "int64_t", "f32": "float", "f64": "double", "bool": "_Bool", "usize": "uint64_t"}


class PtrI32(tyir.Ty):
    """^i32: the value is which of two int cells (one on each side of the boundary holds 41 / 42) it points at"""
    opt = False

    def spell(self):
        return "^i32"

    def val(self, seed, shape=None):
        return 41 + seed % 2

    def lit(self, v):
        return f"^cell{v}"

    def leaves(self, v):
        return [v]

    def show(self, expr, fresh):
        return f"pr(i64.({expr}^));"

    def size_hint(self):
        return 8


class OptPtrI32(PtrI32):
    def spell(self):
        return "?^i32"

    def val(self, seed, shape=None):
        return 0 if seed % 3 == 0 else 41 + seed % 2

    def lit(self, v):
        return "nil" if v == 0 else f"^cell{v}"

    def show(self, expr, fresh):
        q = fresh()
        return f"switch {q} in {expr} {{ ^i32 => {{ pr(i64.({q}^)); }}, nil => {{ pr(0); }} }}"


PTR, OPTPTR = PtrI32(), OptPtrI32()


def ctype(T):
    if isinstance(T, (PtrI32,)):
        return "int32_t*"
    if isinstance(T, Struct):
        return f"struct {T.name}"
    return CTYPE[T.spell()]


def cdecl_struct(T):
    fs = []
    for n, t in T.fields:
        if isinstance(t, Arr):
            fs.append(f"{ctype(t.sub)} {n}[{t.n}];")
        else:
            fs.append(f"{ctype(t)} {n};")
    return f"struct {T.name} {{ " + " ".join(fs) + " };"


def cshow(T, expr):
    if isinstance(T, OptPtrI32):
        return f'pr({expr} ? *{expr} : 0);'
    if isinstance(T, PtrI32):
        return f'pr(*{expr});'
    if isinstance(T, Struct):
        return " ".join(cshow(t, f"{expr}.{n}") for n, t in T.fields)
    if isinstance(T, Arr):
        return " ".join(cshow(T.sub, f"{expr}[{i}]") for i in range(T.n))
    return f"pr((long){expr});"


def clit(T, v):
    if isinstance(T, PtrI32):
        return "0" if v == 0 else f"&ccell{v}"
    if isinstance(T, Struct):
        return f"(struct {T.name}){{ " + ", ".join(clit(t, v[n]) for n, t in T.fields) + " }"
    if isinstance(T, Arr):
        return "{ " + ", ".join(clit(T.sub, x) for x in v) + " }"
    if isinstance(T, tyir.Bool):
        return "1" if v else "0"
    if isinstance(T, tyir.Float):
        return f"{v}.0" + ("f" if T.bits == 32 else "")
    suffix = "ULL" if not T.signed and T.bits == 64 else "LL" if T.bits == 64 else ""
    return f"{v}{suffix}"


FIELD_TYPES = [U8, I16, I32, I64, F32, F64, Arr(3, U8), Arr(2, F32)]
SCALARS = [I8, I16, I32, I64, U8, U16, U32, U64, F32, F64, BOOL, PTR, OPTPTR]


def struct_universe(quick):
    structs = []
    k = 0
    for n in (1, 2, 3):
        for combo in itertools.product(range(len(FIELD_TYPES)), repeat=n):
            k += 1
            structs.append(Struct(f"Q{k}", [("abc"[i], FIELD_TYPES[c]) for i, c in enumerate(combo)]))
    # bigger ones: every size up to 64 through byte arrays, and 4/5-field mixes
    for size in (9, 12, 15, 16, 17, 20, 24, 25, 31, 32, 33, 40, 48, 63, 64):
        structs.append(Struct(f"Z{size}", [("d", Arr(size, U8))]))
    structs.append(Struct("R1", [("a", F64), ("b", F64), ("c", F64), ("d", F64)]))
    structs.append(Struct("R2", [("a", I32), ("b", F32), ("c", I32), ("d", F32)]))
    structs.append(Struct("R3", [("a", I64), ("b", F64), ("c", U8), ("d", F32), ("e", I16)]))
    structs.append(Struct("R4", [("a", F32), ("b", F32), ("c", F32), ("d", F32)]))
    structs.append(Struct("R5", [("a", U8), ("b", U8), ("c", U8), ("d", U8), ("e", U8)]))
    return structs


class Sig:
    def __init__(self, key, params, ret):
        self.key, self.params, self.ret = key, params, ret


def signatures(quick):
    structs = struct_universe(quick)
    sigs = []
    alltypes = SCALARS + structs
    for T in alltypes:
        if quick and isinstance(T, Struct) and T.name.startswith("Q") and len(T.fields) == 3:
            # quick: one identity signature per 3-field struct (argument and result classification in one call)
            sigs.append(Sig(f"id/{T.spell()}", [T], T))
            continue
        sigs.append(Sig(f"param/{T.spell()}", [T], None))
        sigs.append(Sig(f"ret/{T.spell()}", [], T))
        sigs.append(Sig(f"id/{T.spell()}", [T], T))
    sel = [I8, I32, I64, U8, U16, F32, F64, BOOL, PTR, OPTPTR] + [s for s in structs if s.name in (
        "Q1", "Q4", "Q6", "Q7", "Q8", "Q12", "Q20", "Q36", "Q44", "Q45", "Q68", "Z16", "Z17", "Z24", "R1", "R2")][:12]
    for A, B in itertools.product(sel, repeat=2):
        sigs.append(Sig(f"pair/{A.spell()},{B.spell()}", [A, B], B if (len(sigs) % 2) else A))
    press = [s for s in structs if s.name in ("Q1", "Q4", "Q6", "Q12", "Q28", "Q44", "Q45", "Q60", "Z16", "Z17", "R2", "R4")]
    for S in press:
        for k in range(0, 9):
            sigs.append(Sig(f"pressure-int/{S.name}/{k}", [I64] * k + [S], S))
            sigs.append(Sig(f"pressure-float/{S.name}/{k}", [F64] * k + [S], None))
        for k in (3, 5, 6, 7):
            sigs.append(Sig(f"pressure-mixed/{S.name}/{k}", [I64, F64] * (k // 2) + [I64] * (k % 2) + [S, I32, S], S))
    # a result returned in memory (hidden pointer in rdi) takes one integer register away from the arguments
    by_name = {st.name: st for st in structs}
    two_eightbytes = [st for st in structs if st.name in ("Z16", "Z9", "Z12") or
                      (st.name.startswith("Q") and [t.spell() for _, t in st.fields] in (["i64", "i64"], ["i64", "f64"], ["f64", "i64"], ["i32", "i64"],
                                                                                     ["i64", "i32"], ["f64", "f64"], ["i64", "[2]f32"]))]
    for BIG in (by_name["Z24"], by_name["R1"], by_name["Z17"], by_name["R3"]):
        for S2 in two_eightbytes:
            for k in range(0, 8):
                sigs.append(Sig(f"pressure-sret-int/{BIG.name}/{S2.name}/{k}", [I64] * k + [S2], BIG))
            for k in (0, 3, 7, 8):
                sigs.append(Sig(f"pressure-sret-float/{BIG.name}/{S2.name}/{k}", [F64] * k + [S2], BIG))
    return sigs, structs


def build_unit(sigs_chunk, structs_used):
    """-> (capy source, c source, expected transcript per signature index)"""
    capy = ['printf :: (f: str, n: i64) extern;',
            'mark :: (n: i64) { printf("\\n@%ld\\n", n); }',
            'pr :: (v: i64) { printf("%ld ", v); }',
            'cell41 : i32 : 41;', 'cell42 : i32 : 42;']
    c = ['#include <stdio.h>', '#include <stdint.h>', 'static void pr(long v) { printf("%ld ", v); }',
         'static int32_t ccell41 = 41, ccell42 = 42;']
    capy.append(tyir.all_decls(structs_used))
    for s in structs_used:
        c.append(cdecl_struct(s))
    main = ["main :: () -> i32 {"]
    expected = []
    for i, sg in enumerate(sigs_chunk):
        seed = 1000 + i * 17
        args = [t.val(seed + j * 3 + 1) for j, t in enumerate(sg.params)]
        retv = sg.ret.val(seed + 97) if sg.ret is not None else None
        retv2 = sg.ret.val(seed + 131) if sg.ret is not None else None
        pnames = [f"p{j}" for j in range(len(sg.params))]
        rs = f" -> {sg.ret.spell()}" if sg.ret is not None else ""
        # Capy -> C
        capy.append(f"cfn{i} :: ({', '.join(f'{n}: {t.spell()}' for n, t in zip(pnames, sg.params))}){rs} extern;")
        cret = ctype(sg.ret) if sg.ret is not None else "void"
        cparams = ", ".join(f"{ctype(t)} {n}" for n, t in zip(pnames, sg.params)) or "void"
        cbody = " ".join(cshow(t, n) for n, t in zip(pnames, sg.params))
        if sg.ret is not None:
            cbody += f" {cret} r = {clit(sg.ret, retv)}; return r;"
        c.append(f"{cret} cfn{i}({cparams}) {{ {cbody} }}")
        fresh = Fresh(f"w{i}x")
        call = f"cfn{i}({', '.join(t.lit(a) for t, a in zip(sg.params, args))})"
        out = []
        for t, a in zip(sg.params, args):
            out += t.leaves(a)
        main.append(f"    mark({i});")
        if sg.ret is not None:
            main.append(f"    r{i} := {call}; {sg.ret.show(f'r{i}', fresh)}")
            out += sg.ret.leaves(retv)
        else:
            main.append(f"    {call};")
        # C -> Capy
        fresh2 = Fresh(f"v{i}x")
        cb_body = " ".join(t.show(n, fresh2) for n, t in zip(pnames, sg.params))
        if sg.ret is not None:
            cb_body += f" return {sg.ret.lit(retv2)};"
        capy.append(f"cb{i} :: ({', '.join(f'{n}: {t.spell()}' for n, t in zip(pnames, sg.params))}){rs} {{ {cb_body} }}")
        fty = f"({', '.join(f'{n}: {t.spell()}' for n, t in zip(pnames, sg.params))}){rs or ' -> void'}"
        capy.append(f"drv{i} :: (f: {fty}) extern;")
        cargs = ", ".join(clit(t, a) for t, a in zip(sg.params, args))
        fptr = f"{cret} (*f)({', '.join(ctype(t) for t in sg.params) or 'void'})"
        if sg.ret is not None:
            c.append(f"void drv{i}({fptr}) {{ {cret} r = f({cargs}); {cshow(sg.ret, 'r')} }}")
        else:
            c.append(f"void drv{i}({fptr}) {{ f({cargs}); }}")
        main.append(f"    drv{i}(cb{i});")
        for t, a in zip(sg.params, args):
            out += t.leaves(a)
        if sg.ret is not None:
            out += sg.ret.leaves(retv2)
        expected.append(fmt_leaves(out))
    main += ["    mark(-1);", "    0", "}"]
    return "\n".join(capy + main) + "\n", "\n".join(c) + "\n", expected


def used_structs(sigs_chunk):
    seen = {}
    for sg in sigs_chunk:
        for t in sg.params + ([sg.ret] if sg.ret is not None else []):
            if isinstance(t, Struct):
                seen[t.name] = t
    return list(seen.values())


def run_unit(root, mod, tag, chunk):
    """-> list of (sig, kind, observed, detail) mismatches, or 'bisect'"""
    jobdir = os.path.join(root, tag)
    capy_src, c_src, expected = build_unit(chunk, used_structs(chunk))
    res = core.run_capy(jobdir, {"main.capy": capy_src, "cpart.c": c_src}, mod, run=False, extra_args=("--no-exec",))
    if res.panicked or res.internal_error or res.errors or res.compile_rc != 0 or not res.object_exists:
        if len(chunk) > 1:
            return "bisect"
        kind = "compiler-panic" if res.panicked else "rejected" if res.errors else "internal-error"
        return [(chunk[0], kind, res.summary(), res.compile_out[-800:], capy_src, c_src)]
    p = subprocess.run(["gcc", "-O1", "-o", "exe", "out/main.o", "cpart.c"], cwd=jobdir, stdout=subprocess.PIPE, stderr=subprocess.STDOUT)
    if p.returncode != 0:
        core.machinery_failure("gcc failed on the generated C unit: " + p.stdout.decode("utf8", "replace")[-1500:])
    try:
        r = subprocess.run(["./exe"], cwd=jobdir, stdout=subprocess.PIPE, stderr=subprocess.DEVNULL, timeout=60)
        out, rc = r.stdout, r.returncode
    except subprocess.TimeoutExpired as e:
        out, rc = e.stdout or b"", -999
    parts = core.split_output(out)
    if -1 not in parts or rc != 0:
        if len(chunk) > 1:
            return "bisect"
        return [(chunk[0], "crash", {"rc": rc, "out": out[-300:].decode("utf8", "replace")}, "the program died", capy_src, c_src)]
    mism = []
    for i, sg in enumerate(chunk):
        got = parts.get(i, b"").decode("utf8", "replace")
        if got != expected[i]:
            if len(chunk) > 1:
                mism.append((sg, "retry", None, None, None, None))
            else:
                mism.append((sg, "wrong-values", {"out": got}, f"expected {expected[i]!r}", capy_src, c_src))
    shutil.rmtree(jobdir, ignore_errors=True) if not mism else None
    return mism


def run(tier, seed):
    started = time.time()
    quick = tier == "quick"
    sigs, structs = signatures(quick)
    root, mod = core.setup_workdir("c19")
    chunks = [sigs[i:i + 60] for i in range(0, len(sigs), 60)]
    mismatches = []
    compiles = 0
    jobn = 0
    with concurrent.futures.ThreadPoolExecutor(8) as pool:
        pending = chunks
        while pending:
            futs = []
            for ch in pending:
                jobn += 1
                futs.append((ch, pool.submit(run_unit, root, mod, f"u{jobn}", ch)))
            pending = []
            for ch, f in futs:
                compiles += 1
                r = f.result()
                if r == "bisect":
                    h = (len(ch) + 1) // 2
                    pending += [ch[:h], ch[h:]]
                    continue
                for sg, kind, obs, detail, cs, cc in r:
                    if kind == "retry":
                        pending.append([sg])
                    else:
                        c = Case(sg.key, "", None, meta={"files": {"main.capy": cs, "cpart.c": cc}})
                        mismatches.append(core.Mismatch(c, kind, obs, detail))
    coverage = {
        "states": len(sigs),
        "transitions": len(sigs) * 2,
        "traces_validated_against_impl": len(sigs) * 2,
        "exhaustive": True,
        "rule": "a case = one signature exercised in both directions (Capy -> C extern call, C -> Capy through a function pointer); the C side is "
                "compiled by the host gcc, the Capy side by the real CLI; transcripts must equal the chosen constants",
        "bounds_completed": {"signatures": len(sigs), "struct_types": len(structs), "scalars": [t.spell() for t in SCALARS],
                             "families": ["param", "ret", "id", "pair", "pressure-int 0..8", "pressure-float 0..8", "pressure-mixed"]},
        "distinct_outcomes": len(sigs),
        "compilations": compiles,
        "samples": [{"signature": s.key} for s in (sigs[0], sigs[len(sigs) // 2], sigs[-1])],
    }
    core.finish("C19", tier, seed, started, coverage, mismatches, None, assumptions=[
        "gcc -O1 on the host is the reference model of the x86-64 System V convention; struct layouts of C scalars agree with C (checked by C17)",
    ])
