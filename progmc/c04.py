"""C04 – a comptime block yields what the same code yields at runtime.

For every type of a universe (ints of every width at boundary values, floats, bool, char, arrays,
nested structs, enums with payloads, optionals, error unions, nestings) and several values of it,
and for every placement of the block (global `g :: comptime {..}`, local `::`, local `:=`, inline
as an argument, nested comptime, block with locals, block calling a helper, block with a loop,
block reading a const global), the program prints the comptime copy and the runtime copy of the
same expression leaf by leaf; both must equal the model value.  `type` results are used as
annotations and compared.  Strings are compared with strcmp / strlen.
Side effects: a block that prints a marker makes the marker appear exactly once in the *compiler's*
output and never in the program's, however often the value is used and however often the program runs.
"""
import os
import time

from . import core, tyir
from .core import Case
from .tyir import (Arr, Enum, ErrU, Opt, Struct, U8, U16, U32, U64, I8, I16, I32, I64, U128, I128, BOOL, F32, F64,
                   Fresh, fmt_leaves)

BASE = '''printf :: (f: str, n: i64) extern;
strcmp :: (a: str, b: str) -> i32 extern;
strlen :: (s: str) -> usize extern;
mark :: (n: i64) { printf("\\n@%ld\\n", n); }
pr :: (v: i64) { printf("%ld ", v); }
GK :: 7;
sq :: (v: i64) -> i64 { v * v + GK }
'''


def universe():
    M5 = Struct("M5", [("a", U64), ("b", U8)])
    N = Struct("NN", [("p", M5), ("q", Arr(2, I16)), ("r", BOOL)])
    E = Enum("EE", [("A", I32, None), ("B", None, None), ("C", M5, 9)])
    Err = Enum("Err", [("Bad", U8, None), ("Worse", None, None)])
    tys = [U8, U16, U32, U64, I8, I16, I32, I64, U128, I128, BOOL, F32, F64,
           Arr(3, U8), Arr(2, I64), Arr(2, Arr(2, I16)), Arr(5, U16),
           M5, N, Struct("F2", [("a", F32), ("b", F64)]), Struct("B7", [("d", Arr(7, U8))]),
           E, Enum("E6", [("A", None, None), ("B", None, None), ("C", None, None)]),
           Opt(I32), Opt(U8), Opt(M5), Opt(E), ErrU(Err, I64), ErrU(Err, M5), ErrU(Err, U8),
           Arr(2, Opt(I32)), Struct("SO", [("a", Opt(I64)), ("b", U8)]), Arr(2, E)]
    return tys


def boundary_values(T):
    if isinstance(T, tyir.Int):
        hi = (1 << (T.bits - 1)) - 1 if T.signed else (1 << T.bits) - 1
        if T.bits > 64:
            hi = (1 << 62)
        vals = [0, 1, hi, hi - 1, hi // 2 + 1]
        if T.signed:
            vals += [-1, -hi]
        if T.bits == 64 and not T.signed:
            vals = [0, 1, (1 << 62), (1 << 63) - 1]
        return vals
    if isinstance(T, tyir.Float):
        return [0, 1, -2, 16777216 if T.bits == 32 else 9007199254740992, -12345]
    return None


PLACEMENTS = ["global", "global-typed", "local-const", "local-mut", "inline-arg", "nested", "with-locals", "via-helper", "in-struct-literal"]


def make_cases(T, tid, quick):
    cases = []
    bv = boundary_values(T)
    if bv is not None:
        values = [(None, v) for v in bv]
    else:
        values = []
        for shape in T.shapes():
            values.append((shape, T.val(31 + tid, shape)))
            values.append((shape, T.val(77 + tid, shape)))
    uid = 0
    for shape, v in values:
        for placement in PLACEMENTS:
            if quick and placement in ("local-mut", "in-struct-literal") and bv is not None and v not in (bv[0], bv[2]):
                continue
            uid += 1
            tag = f"{tid}_{uid}"
            fresh = Fresh(f"k{tag}x")
            lit = T.lit(v)
            decls = []
            body = []
            sp = T.spell()
            if placement == "global":
                decls.append(f"G{tag} : {sp} : comptime {{ {lit} }};")
                src = f"G{tag}"
            elif placement == "global-typed":
                # the block's own type already is the annotated type (no implicit conversion of the result is involved)
                decls.append(f"G{tag} : {sp} : comptime {{ t : {sp} = {lit}; t }};")
                src = f"G{tag}"
            elif placement == "local-const":
                body.append(f"c : {sp} : comptime {{ {lit} }};")
                src = "c"
            elif placement == "local-mut":
                body.append(f"c : {sp} = comptime {{ {lit} }};")
                src = "c"
            elif placement == "inline-arg":
                decls.append(f"idf{tag} :: (x: {sp}) -> {sp} {{ x }}")
                body.append(f"c := idf{tag}(comptime {{ {lit} }});")
                src = "c"
            elif placement == "nested":
                body.append(f"c : {sp} : comptime {{ t : {sp} = comptime {{ {lit} }}; t }};")
                src = "c"
            elif placement == "with-locals":
                body.append(f"c : {sp} : comptime {{ a : {sp} = {lit}; b := a; i := 0; while i < 3 {{ i += 1; }} b }};")
                src = "c"
            elif placement == "via-helper":
                decls.append(f"mk{tag} :: (k: i64) -> {sp} {{ if k == 1 {{ return {lit}; }} dflt : {sp} = {T.lit(T.val(5))}; dflt }}")
                body.append(f"c : {sp} : comptime {{ mk{tag}(1) }};")
                src = "c"
            else:
                decls.append(f"WW{tag} :: struct {{ g: u8, v: {sp}, h: u8 }};")
                body.append(f"w := WW{tag}.{{ g = 1, v = comptime {{ {lit} }}, h = 2 }}; pr(i64.(w.g)); pr(i64.(w.h));")
                src = "w.v"
            body.append(T.show(src, fresh))
            # the runtime copy of the same expression
            if placement == "via-helper":
                body.append(f"r : {sp} = mk{tag}(1);")
            else:
                body.append(f"r : {sp} = {lit};")
            body.append(T.show("r", fresh))
            out = ([1, 2] if placement == "in-struct-literal" else []) + T.leaves(v) + T.leaves(v)
            cases.append(Case(f"{sp}/{placement}/{shape}/{uid}", "\n".join(body), fmt_leaves(out), decls="\n".join(decls)))
    return cases


def computed_cases():
    """blocks that compute: loops, helper calls, reads of const globals, arithmetic at every width"""
    cases = []
    progs = [
        ("loop-sum", "i64", "s : i64 = 0; i : i64 = 0; while i < 10 { s += i * i; i += 1; } s", sum(i * i for i in range(10))),
        ("helper", "i64", "sq(5) + sq(-3)", 25 + 7 + 9 + 7),
        ("global-read", "i64", "GK * 6", 42),
        ("wrap-u8", "u8", "x : u8 = 250; x = x + 10; x", 4),
        ("wrap-i8", "i8", "x : i8 = 127; x = x + 1; x", -128),
        ("wrap-i32", "i32", "x : i32 = 2147483647; x = x + 1; x", -2147483648),
        ("shift-u64", "u64", "x : u64 = 1; x = x << 40; x", 1 << 40),
        ("div-neg", "i32", "x : i32 = -7; x / 2", -3),
        ("rem-neg", "i32", "x : i32 = -7; x % 3", -1),
        ("cast-f64", "i64", "f : f64 = 2.75; i64.(f * 4)", 11),
        ("cast-narrow", "u8", "x : i32 = 511; u8.(x)", 255),
        ("bool-and", "bool", "a := true; b := false; a && !b", 1),
        ("char", "u8", "c := 'A'; u8.(c) + 1", 66),
        ("if-value", "i32", "x := 5; if x > 3 { 10 } else { 20 }", 10),
        ("block-break", "i32", "`b: { if GK == 7 { break `b 11; } 22 }", 11),
        ("array-index", "i16", "a := i16.[3, 4, 5]; a[1] + a[2]", 9),
    ]
    for name, ty, code, val in progs:
        body = (f"c : {ty} : comptime {{ {code} }}; pr(i64.(c));\n"
                f"r : {ty} = {{ {code} }}; pr(i64.(r));")
        cases.append(Case(f"computed/{name}", body, f"{val} {val} "))
        cases.append(Case(f"computed-global/{name}", f"pr(i64.(GC_{name.replace('-', '_')}));", f"{val} ",
                          decls=f"GC_{name.replace('-', '_')} : {ty} : comptime {{ {code} }};"))
    # types as results
    for name, code, probe, exp in (
        ("type-literal", "i32", "x : TT = 300; pr(i64.(x));", "300 "),
        ("type-if", "if GK == 7 { i64 } else { u8 }", "x : TT = 5000000000; pr(i64.(x));", "5000000000 "),
        ("type-u8", "u8", "x : TT = 200; y := x + 100; pr(i64.(y));", "44 "),
    ):
        cases.append(Case(f"type/{name}", f"TT :: comptime {{ {code} }};\n{probe}", exp))
    # strings
    cases.append(Case("str/local", 'c :: comptime { "hello" }; pr(i64.(strlen(c))); pr(i64.(strcmp(c, "hello")));', "5 0 "))
    # a global array literal whose items are constants narrower than the element type (they are converted while the data is laid out)
    cases.append(Case("computed-global/array-literal-of-narrower-constants",
                      "pr(GARR_w[0]); pr(GARR_w[1]); pr(GARR_w[2]); pr(i64.(GARR_u[0])); pr(i64.(GARR_u[1]));", "3000 200 7 200 5 ",
                      decls="GA_w :: 3000;\nGB_w : u8 : 200;\nGARR_w :: i64.[GA_w, GB_w, 7];\nGARR_u :: u64.[GB_w, 5];\n"))
    cases.append(Case("str/global", 'pr(i64.(strlen(GS1))); pr(i64.(strcmp(GS1, "comptime string")));', "15 0 ",
                      decls='GS1 :: comptime { "comptime string" };'))
    return cases


def side_effect_family(root, mod):
    """-> (number of programs, mismatches)"""
    mism = []
    progs = []
    base = 'printf :: (f: str, n: i64) extern;\n'
    for uses in (0, 1, 3):
        use = "".join("printf(\"v=%ld\\n\", V);\n    " for _ in range(uses))
        progs.append((f"side-effect/global/uses{uses}",
                      base + f'V :: comptime {{ printf("<CT%ld>", 77); 5 }};\nmain :: () -> i32 {{\n    {use}0\n}}\n', "v=5\n" * uses))
        progs.append((f"side-effect/local/uses{uses}",
                      base + f'main :: () -> i32 {{\n    V :: comptime {{ printf("<CT%ld>", 77); 5 }};\n    {use}0\n}}\n', "v=5\n" * uses))
    progs.append(("side-effect/in-loop",
                  base + 'main :: () -> i32 {\n    i := 0;\n    while i < 3 { x := comptime { printf("<CT%ld>", 77); 4 }; printf("x=%ld\\n", x); i += 1; }\n    0\n}\n',
                  "x=4\n" * 3))
    progs.append(("side-effect/in-called-twice",
                  base + 'f :: () -> i64 { comptime { printf("<CT%ld>", 77); 6 } }\nmain :: () -> i32 {\n    printf("a=%ld\\n", f()); printf("b=%ld\\n", f());\n    0\n}\n',
                  "a=6\nb=6\n"))
    # blocks without a value (void): only the side effect matters
    progs.append(("side-effect/void-statement",
                  base + 'main :: () -> i32 {\n    comptime { printf("<CT%ld>", 77); };\n    printf("m=%ld\\n", 1);\n    0\n}\n', "m=1\n"))
    progs.append(("side-effect/void-in-helper-called-twice",
                  base + 'h :: () { comptime { printf("<CT%ld>", 77); }; printf("h=%ld\\n", 2); }\nmain :: () -> i32 {\n    h(); h();\n    0\n}\n', "h=2\nh=2\n"))
    progs.append(("side-effect/void-in-loop",
                  base + 'main :: () -> i32 {\n    i := 0;\n    while i < 2 { comptime { printf("<CT%ld>", 77); }; printf("i=%ld\\n", i64.(i)); i += 1; }\n    0\n}\n',
                  "i=0\ni=1\n"))
    progs.append(("side-effect/void-global",
                  base + 'V :: comptime { printf("<CT%ld>", 77); };\nmain :: () -> i32 {\n    printf("g=%ld\\n", 3);\n    0\n}\n', "g=3\n"))
    progs.append(("side-effect/zero-sized-struct-result",
                  base + 'Z :: struct {};\nmain :: () -> i32 {\n    z := comptime { printf("<CT%ld>", 77); Z.{} };\n    printf("z=%ld\\n", 4);\n    0\n}\n', "z=4\n"))
    for i, (key, src, out) in enumerate(progs):
        res = core.run_capy(os.path.join(root, f"se{i}"), {"main.capy": src}, mod)
        got = res.run_out.decode("utf8", "replace")
        n_compile = res.compile_out.count("<CT77>")
        problems = []
        if res.errors or res.panicked or res.compile_rc != 0:
            problems.append("not compiled cleanly")
        else:
            if n_compile != 1:
                problems.append(f"the block's side effect appeared {n_compile} times in the compiler's output (expected once)")
            if "<CT77>" in got:
                problems.append("the block's side effect was repeated by the built program")
            if got != out:
                problems.append(f"program printed {got!r}, expected {out!r}")
            # a second run of the same executable
            import subprocess
            p = subprocess.run([os.path.join(root, f"se{i}", "out", "main")], stdout=subprocess.PIPE, stderr=subprocess.DEVNULL)
            if p.stdout.decode("utf8", "replace") != out:
                problems.append("second run differs")
        if problems:
            c = Case(key, "", out, meta={"standalone": src, "exit": 0})
            mism.append(core.Mismatch(c, "side-effect", res.summary(), "; ".join(problems)))
    return len(progs), mism


def weak_cases():
    """comptime blocks whose body is *weakly typed* (untyped literals, arithmetic on them, untyped array literals): the type comes
    from the destination - a plain, optional or error-union annotation, a parameter, a struct member, a slice or an array"""
    cases = []
    ints = [tyir.Int(n, b, sg) for n, b, sg in (("i8", 8, True), ("u8", 8, False), ("i16", 16, True), ("u16", 16, False), ("i32", 32, True),
                                                 ("u32", 32, False), ("i64", 64, True), ("u64", 64, False))]
    uid = 0
    for T in ints:
        hi = (1 << (T.bits - 1)) - 1 if T.signed else (1 << T.bits) - 1
        bodies = [("small", "7", 7), ("sum", "3 + 4 * 5", 23), ("near-max", f"{hi // 3} * 3", hi // 3 * 3), ("max", f"{hi}", hi),
                  ("with-local", "x := 40; x + 2", 42)]
        if T.signed:
            bodies += [("negative", "-5", -5), ("negative-via-local", "x := 40; x - 100", -60), ("min-plus-1", f"-{hi}", -hi)]
        name = T.name
        for bname, src, v in bodies:
            shown = v if v < (1 << 63) else v - (1 << 64)
            dests = {
                "plain": (f"c : {name} = comptime {{ {src} }};", "c"),
                "optional": (f"c : ?{name} = comptime {{ {src} }};", f"#unwrap(c, {name})"),
                "error-union": (f"c : WkErr!{name} = comptime {{ {src} }};", f"#unwrap(c, {name})"),
                "const-optional": (f"c : ?{name} : comptime {{ {src} }};", f"#unwrap(c, {name})"),
                "argument": (f"c := wk_id_{name}(comptime {{ {src} }});", "c"),
                "optional-argument": (f"c := wk_opt_{name}(comptime {{ {src} }});", "c"),
                "struct-member": (f"c := WkS_{name}.{{ g = 1, m = comptime {{ {src} }}, o = comptime {{ {src} }} }};", None),
            }
            for dname, (stmt, expr) in dests.items():
                uid += 1
                if expr is None:
                    body = f"{stmt}\npr(i64.(c.m)); pr(i64.(#unwrap(c.o, {name})));"
                    exp = [shown, shown]
                else:
                    body = f"{stmt}\npr(i64.({expr}));"
                    exp = [shown]
                # the runtime copy of the same expression
                body += f"\nr : {name} = {{ {src} }};\npr(i64.(r));"
                exp.append(shown)
                cases.append(Case(f"weak/{name}/{bname}/{dname}", body, fmt_leaves(exp)))
        # untyped array literals into slices and arrays
        arr = [7, -9 if T.signed else 9, hi]
        lit = ".[" + ", ".join(str(x) for x in arr) + "]"
        shown = [x if x < (1 << 63) else x - (1 << 64) for x in arr]
        for dname, stmt in (("slice", f"c : []{name} = comptime {{ {lit} }};"), ("array", f"c : [3]{name} = comptime {{ {lit} }};"),
                            ("optional-array", f"co : ?[3]{name} = comptime {{ {lit} }}; c := #unwrap(co, [3]{name});")):
            body = f"{stmt}\npr(i64.(c[0])); pr(i64.(c[1])); pr(i64.(c[2]));\nr : [3]{name} = {lit};\npr(i64.(r[0])); pr(i64.(r[1])); pr(i64.(r[2]));"
            cases.append(Case(f"weak/{name}/array-literal/{dname}", body, fmt_leaves(shown + shown)))
    decls = "WkErr :: enum { Bad };\n"
    for T in ints:
        n = T.name
        decls += (f"wk_id_{n} :: (a: {n}) -> {n} {{ a }}\nwk_opt_{n} :: (a: ?{n}) -> {n} {{ #unwrap(a, {n}) }}\n"
                  f"WkS_{n} :: struct {{ g: u8, m: {n}, o: ?{n} }};\n")
    return cases, decls


def run(tier, seed):
    started = time.time()
    quick = tier == "quick"
    tys = universe()
    prelude = BASE + tyir.all_decls(tys) + "\n"
    cases = []
    for i, T in enumerate(tys):
        cases += make_cases(T, i, quick)
    cases += computed_cases()
    wcases, wdecls = weak_cases()
    cases += wcases
    prelude += wdecls
    runner = core.Runner("c04", batch_size=40, prelude=prelude)
    mism = runner.run(cases)
    nse, sm = side_effect_family(runner.root, runner.mod)
    outcomes = {c.expected for c in cases}
    if len(cases) < 300 or len(outcomes) < 100:
        core.machinery_failure("vacuous run")
    coverage = {
        "states": len(cases) + nse,
        "transitions": sum(len(c.expected.split()) for c in cases),
        "traces_validated_against_impl": len(cases) + nse,
        "exhaustive": True,
        "rule": "a case = (result type, value, placement of the comptime block); each compiled (blocks evaluated by the real comptime JIT) and "
                "executed; the comptime copy and the runtime copy are printed leaf by leaf",
        "bounds_completed": {"types": len(tys), "placements": PLACEMENTS, "computed_blocks": 16, "side_effect_programs": nse, "weakly_typed_bodies": len(wcases),
                             "values": "integers/floats: boundary values of the type; aggregates and sum types: two values per top-level shape"},
        "distinct_outcomes": len(outcomes),
        "compilations": runner.compiles + nse,
        "samples": [{"case": c.key, "body": c.body[:400], "expected": c.expected[:200]} for c in (cases[0], cases[len(cases) // 2], cases[-1])],
    }
    core.finish("C04", tier, seed, started, coverage, mism + sm, explains, assumptions=[
        "bodies are deterministic; pointer- and function-valued results are rejected by the compiler by design and are not generated",
    ])


def explains(model, m):
    if model == "comptime-str-dangling":
        return m.case.key.startswith("str/")
    if model == "global-annotation-conversion-not-applied":
        # `G : T : comptime { e }` where e's own type is not T but converts to it implicitly (payload -> optional / error
        # union, variant -> enum, i32 -> i64): the raw bytes of e's type become the global's data
        k = m.case.key
        if k == "computed-global/global-read":
            return True
        ty = k.split("/")[0]
        return "/global/" in k and (ty.startswith("?") or "!" in ty or ty in ("EE", "E6"))
    return False
