"""C01 – well-typed programs are accepted and run exactly as the semantics prescribe.

State-space exploration over a fixed typed environment: a program is the prologue, every sequence
of <= k statements from a menu, and an epilogue that prints the whole environment.  The model is
a direct Python semantics of every menu statement over an environment of Python values with value
(copy) semantics for aggregates and explicit aliasing for the pointer and the slice.
Sequences are enumerated level by level with no pruning.

A second family checks what a whole process does: `main`'s result as the exit status for every
result type, and the language-defined runtime faults (message, status 1, nothing after).
"""
import copy
import itertools
import time

from . import core
from .core import Case

PRELUDE = '''printf :: (f: str, n: i64) extern;
putchar :: (c: char) -> i32 extern;
mark :: (n: i64) { printf("\\n@%ld\\n", n); }
p :: (tag: char, v: i64) { putchar(tag); printf("%ld ", v); }

S :: struct { a: i32, b: u8, c: [2]i16 };
E :: enum { A: i32, B, C: S | 7 };
Err :: enum { Bad: u8, Worse };

half :: (x: i32) -> ?i32 { if x % 2 == 0 { x / 2 } else { nil } }
safe :: (x: i32) -> Err!i32 { if x < 0 { return Err.Bad.(3); } if x > 1000 { return Err.Worse; } x * 2 }
chain :: (x: i32) -> ?i32 { h := half(x).try; half(h).try }
echain :: (x: i32) -> Err!i32 { y := safe(x).try; safe(y - 100).try }
sum :: (xs: ...i32) -> i32 { t := 0; i := 0; while i < xs.len { t += xs[i]; i += 1; } t }
apply :: (f: (x: i32) -> i32, v: i32) -> i32 { f(v) }
inc :: (v: i32) -> i32 { v + 1 }
dbl :: (v: i32) -> i32 { v * 2 }
bump :: (q: ^mut i32) { q^ = q^ + 10; }
take :: (t: S) -> i32 { t.a + i32.(t.b) }
mk :: (v: i32) -> S { S.{ a = v, b = 1, c = i16.[2, 3] } }

show_e :: (e: E) {
    switch v in e { .A => p('e', i64.(v)), .B => p('e', -1), .C => { p('e', i64.(v.a)); p('e', i64.(v.b)); } }
}
show_o :: (o: ?i32) { switch v in o { i32 => p('o', i64.(v)), nil => p('o', -7) } }
show_eu :: (eu: Err!i32) {
    switch v in eu {
        i32 => p('u', i64.(v)),
        Err => { switch w in v { .Bad => p('u', -100 - i64.(w)), .Worse => p('u', -200) } },
    }
}
show :: (x: i32, y: u8, z: i64, w: u64, b: bool, c: char, a: [3]i32, sl: []i32, s: S, pv: i32, fv: i32) {
    p('x', i64.(x)); p('y', i64.(y)); p('z', z); p('w', i64.(w));
    if b { p('b', 1); } else { p('b', 0); }
    p('c', i64.(u8.(c)));
    p('a', i64.(a[0])); p('a', i64.(a[1])); p('a', i64.(a[2]));
    p('l', i64.(sl.len)); p('l', i64.(sl[0])); p('l', i64.(sl[2]));
    p('s', i64.(s.a)); p('s', i64.(s.b)); p('s', i64.(s.c[0])); p('s', i64.(s.c[1]));
    p('p', i64.(pv)); p('f', i64.(fv));
}
'''

PROLOGUE = '''x : i32 = 5; y : u8 = 250; z : i64 = -3; w : u64 = 9; b := true; c := 'k';
a := i32.[10, 20, 30]; sl : []i32 = a;
s := S.{ a = 7, b = 8, c = i16.[-1, 300] };
e : E = E.A.(42); o : ?i32 = 6; eu : Err!i32 = 12;
pt := ^mut x; f : (v: i32) -> i32 = inc;'''

EPILOGUE = '''show(x, y, z, w, b, c, a, sl, s, pt^, f(3)); show_e(e); show_o(o); show_eu(eu); putchar('\\n');'''


def w32(v):
    v &= 0xFFFFFFFF
    return v - (1 << 32) if v >> 31 else v


def w64(v):
    v &= (1 << 64) - 1
    return v - (1 << 64) if v >> 63 else v


def w16(v):
    v &= 0xFFFF
    return v - (1 << 16) if v >> 15 else v


def u8(v):
    return v & 0xFF


def u64(v):
    return v & ((1 << 64) - 1)


def tdiv(a, b):
    q = abs(a) // abs(b)
    return -q if (a < 0) != (b < 0) else q


def trem(a, b):
    return a - tdiv(a, b) * b


class Env:
    """the model state. `pt` is a path: ('x',) | ('a', i) | ('s', 'a')"""

    def __init__(self):
        self.x, self.y, self.z, self.w, self.b, self.c = 5, 250, -3, 9, True, ord("k")
        self.a = [10, 20, 30]
        self.s = {"a": 7, "b": 8, "c": [-1, 300]}
        self.e = ("A", 42)
        self.o = ("some", 6)
        self.eu = ("ok", 12)
        self.pt = ("x",)
        self.f = "inc"
        self.out = []
        self.done = False  # the case function returned early

    def deref(self):
        if self.pt == ("x",):
            return self.x
        if self.pt[0] == "a":
            return self.a[self.pt[1]]
        return self.s["a"]

    def store(self, v):
        v = w32(v)
        if self.pt == ("x",):
            self.x = v
        elif self.pt[0] == "a":
            self.a[self.pt[1]] = v
        else:
            self.s["a"] = v

    def call_f(self, v):
        return w32(v + 1) if self.f == "inc" else w32(v * 2)

    def p(self, tag, v):
        self.out.append(f"{tag}{v} ")

    def show(self):
        self.p("x", self.x); self.p("y", self.y); self.p("z", self.z); self.p("w", w64(self.w))
        self.p("b", 1 if self.b else 0)
        self.p("c", self.c)
        for v in self.a:
            self.p("a", v)
        self.p("l", 3); self.p("l", self.a[0]); self.p("l", self.a[2])
        self.p("s", self.s["a"]); self.p("s", self.s["b"]); self.p("s", self.s["c"][0]); self.p("s", self.s["c"][1])
        self.p("p", self.deref()); self.p("f", self.call_f(3))
        if self.e[0] == "A":
            self.p("e", self.e[1])
        elif self.e[0] == "B":
            self.p("e", -1)
        else:
            self.p("e", self.e[1]["a"]); self.p("e", self.e[1]["b"])
        self.p("o", self.o[1] if self.o[0] == "some" else -7)
        if self.eu[0] == "ok":
            self.p("u", self.eu[1])
        elif self.eu[1][0] == "Bad":
            self.p("u", -100 - self.eu[1][1])
        else:
            self.p("u", -200)
        self.out.append("\n")


def half(x):
    return ("some", tdiv(x, 2)) if trem(x, 2) == 0 else ("nil",)


def safe(x):
    if x < 0:
        return ("err", ("Bad", 3))
    if x > 1000:
        return ("err", ("Worse",))
    return ("ok", w32(x * 2))


def chain(x):
    h = half(x)
    if h[0] == "nil":
        return h
    return half(h[1])


def echain(x):
    y = safe(x)
    if y[0] == "err":
        return y
    return safe(w32(y[1] - 100))


def st(code, fn):
    return (code, fn)


def _set(attr, f):
    def g(E):
        setattr(E, attr, f(E))
    return g


def _switch_e(E):
    if E.e[0] == "A":
        E.x = E.e[1]
    elif E.e[0] == "B":
        E.x = -1
    else:
        E.x = E.e[1]["a"]


def _switch_e_default(E):
    if E.e[0] == "C":
        E.y = E.e[1]["b"]
    else:
        E.y = 1


def _while_sum(E):
    i = 0
    while i < 3:
        E.x = w32(E.x + E.a[i])
        i += 1


def _while_continue(E):
    i = 0
    while i < 5:
        i += 1
        if i % 2 == 0:
            continue
        E.z = w64(E.z + i)


def _loop_break(E):
    n = 0
    while True:
        n += 1
        if trem(w32(E.x + n), 4) == 0:
            E.x = w32(n * 10)
            break


def _nested_break(E):
    i = 0
    found = False
    while i < 3 and not found:
        j = 0
        while j < 3:
            if E.a[i] == E.a[j] + 10:
                E.y = u8(i * 3 + j)
                found = True
                break
            j += 1
        i += 1


def _early_return(E):
    if E.x > 40:
        E.done = True


def _unwrap_e(E):
    if E.e[0] == "A":
        E.x = w32(E.e[1] + 1)


def _store_struct_copy(E):
    t = copy.deepcopy(E.s)
    t["a"] = 99
    t["c"][0] = 5
    E.x = w32(t["a"] - E.s["a"] + t["c"][0] - E.s["c"][0])


def _arr_copy(E):
    t = list(E.a)
    t[0] = 1
    E.x = w32(t[0] + E.a[0])


def _switch_o(E):
    E.x = w32(E.o[1] + 1) if E.o[0] == "some" else 0


def _switch_eu(E):
    if E.eu[0] == "ok":
        E.x = E.eu[1]
    elif E.eu[1][0] == "Bad":
        E.x = w32(-E.eu[1][1])
    else:
        E.x = -2


def _chain(E):
    r = chain(E.x)
    E.x = r[1] if r[0] == "some" else -9


def _bump(E):
    E.store(E.deref() + 10)


MENU = [
    st("x = x + 1;", _set("x", lambda E: w32(E.x + 1))),
    st("x = x * 3 - 7;", _set("x", lambda E: w32(E.x * 3 - 7))),
    st("x = -x;", _set("x", lambda E: w32(-E.x))),
    st("x = x / 2;", _set("x", lambda E: tdiv(E.x, 2))),
    st("x = x % 5;", _set("x", lambda E: trem(E.x, 5))),
    st("x = x * 65536 * 32768;", _set("x", lambda E: w32(E.x * 65536 * 32768))),
    st("y = y + 200;", _set("y", lambda E: u8(E.y + 200))),
    st("y += 100;", _set("y", lambda E: u8(E.y + 100))),
    st("y -= 1;", _set("y", lambda E: u8(E.y - 1))),
    st("y = y * 2;", _set("y", lambda E: u8(E.y * 2))),
    st("y = y / 3;", _set("y", lambda E: E.y // 3)),
    st("z = i64.(x) * 1000000007;", _set("z", lambda E: w64(E.x * 1000000007))),
    st("z = z * z;", _set("z", lambda E: w64(E.z * E.z))),
    st("w = u64.(z);", _set("w", lambda E: u64(E.z))),
    st("w = w >> 3;", _set("w", lambda E: E.w >> 3)),
    st("w = w << 61;", _set("w", lambda E: u64(E.w << 61))),
    st("w = w / 3;", _set("w", lambda E: E.w // 3)),
    st("w = w - 10;", _set("w", lambda E: u64(E.w - 10))),
    st("x = i32.(z);", _set("x", lambda E: w32(E.z))),
    st("y = u8.(x);", _set("y", lambda E: u8(E.x))),
    st("x = i32.(y);", _set("x", lambda E: E.y)),
    st("z = i64.(w);", _set("z", lambda E: w64(E.w))),
    st("z = i64.(y) - i64.(x);", _set("z", lambda E: w64(E.y - E.x))),
    st("b = !b;", _set("b", lambda E: not E.b)),
    st("b = x > 3;", _set("b", lambda E: E.x > 3)),
    st("b = b && y < 100;", _set("b", lambda E: E.b and E.y < 100)),
    st("b = b || z == 0;", _set("b", lambda E: E.b or E.z == 0)),
    st("b = w >= 9;", _set("b", lambda E: E.w >= 9)),
    st("c = char.(y);", _set("c", lambda E: E.y)),
    st("c = 'q';", _set("c", lambda E: ord("q"))),
    st("y = u8.(c) + 1;", _set("y", lambda E: u8(E.c + 1))),
    st("a[0] = x;", lambda E: E.a.__setitem__(0, E.x)),
    st("a[1] += 5;", lambda E: E.a.__setitem__(1, w32(E.a[1] + 5))),
    st("a[2] = a[0] + a[1];", lambda E: E.a.__setitem__(2, w32(E.a[0] + E.a[1]))),
    st("x = a[1];", _set("x", lambda E: E.a[1])),
    st("a = i32.[x, 2, 3];", lambda E: E.a.__setitem__(slice(0, 3), [E.x, 2, 3])),
    st("x = sl[2] - sl[0];", _set("x", lambda E: w32(E.a[2] - E.a[0]))),
    st("x = i32.(sl.len) + x;", _set("x", lambda E: w32(3 + E.x))),
    st("{ t := a; t[0] = 1; x = t[0] + a[0]; }", _arr_copy),
    st("s.a = x;", lambda E: E.s.__setitem__("a", E.x)),
    st("s.b = y;", lambda E: E.s.__setitem__("b", E.y)),
    st("s.c[1] = 7;", lambda E: E.s["c"].__setitem__(1, 7)),
    st("s.c[0] = i16.(x);", lambda E: E.s["c"].__setitem__(0, w16(E.x))),
    st("x = s.a + i32.(s.c[1]);", _set("x", lambda E: w32(E.s["a"] + E.s["c"][1]))),
    st("s = S.{ a = x, b = 2, c = i16.[4, 5] };", _set("s", lambda E: {"a": E.x, "b": 2, "c": [4, 5]})),
    st("s = mk(x);", _set("s", lambda E: {"a": E.x, "b": 1, "c": [2, 3]})),
    st("x = take(s);", _set("x", lambda E: w32(E.s["a"] + E.s["b"]))),
    st("{ t := s; t.a = 99; t.c[0] = 5; x = t.a - s.a + i32.(t.c[0]) - i32.(s.c[0]); }", _store_struct_copy),
    st("e = E.A.(x);", _set("e", lambda E: ("A", E.x))),
    st("e = E.B;", _set("e", lambda E: ("B",))),
    st("e = E.C.(s);", _set("e", lambda E: ("C", copy.deepcopy(E.s)))),
    st("switch v in e { .A => { x = i32.(v); }, .B => { x = -1; }, .C => { x = v.a; } }", _switch_e),
    st("switch v in e { .C => { y = v.b; }, _ => { y = 1; } }", _switch_e_default),
    st("if #is_variant(e, E.A) { x = i32.(#unwrap(e, E.A)) + 1; }", _unwrap_e),
    st("b = #is_variant(e, E.B);", _set("b", lambda E: E.e[0] == "B")),
    st("o = x;", _set("o", lambda E: ("some", E.x))),
    st("o = nil;", _set("o", lambda E: ("nil",))),
    st("o = half(x);", _set("o", lambda E: half(E.x))),
    st("switch v in o { i32 => { x = v + 1; }, nil => { x = 0; } }", _switch_o),
    st("b = #is_variant(o, nil);", _set("b", lambda E: E.o[0] == "nil")),
    st("eu = safe(x);", _set("eu", lambda E: safe(E.x))),
    st("eu = echain(x);", _set("eu", lambda E: echain(E.x))),
    st("eu = Err.Bad.(y);", _set("eu", lambda E: ("err", ("Bad", E.y)))),
    st("eu = x;", _set("eu", lambda E: ("ok", E.x))),
    st("switch v in eu { i32 => { x = v; }, Err => { switch q in v { .Bad => { x = -i32.(q); }, .Worse => { x = -2; } } } }", _switch_eu),
    st("switch v in chain(x) { i32 => { x = v; }, nil => { x = -9; } }", _chain),
    st("pt^ = pt^ + 1;", lambda E: E.store(E.deref() + 1)),
    st("pt = ^mut a[1];", _set("pt", lambda E: ("a", 1))),
    st("pt = ^mut s.a;", _set("pt", lambda E: ("s", "a"))),
    st("pt = ^mut x;", _set("pt", lambda E: ("x",))),
    st("bump(pt);", _bump),
    st("bump(^mut x);", _set("x", lambda E: w32(E.x + 10))),
    st("x = f(x);", _set("x", lambda E: E.call_f(E.x))),
    st("f = dbl;", _set("f", lambda E: "dbl")),
    st("f = inc;", _set("f", lambda E: "inc")),
    st("x = sum(x, 1, 2);", _set("x", lambda E: w32(E.x + 3))),
    st("x = sum();", _set("x", lambda E: 0)),
    st("x = apply((v: i32) -> i32 { v * 3 }, x);", _set("x", lambda E: w32(E.x * 3))),
    st("x = apply(f, x);", _set("x", lambda E: E.call_f(E.x))),
    st("{ i := 0; while i < 3 { x += a[i]; i += 1; } }", _while_sum),
    st("{ i := 0; while i < 5 { i += 1; if i % 2 == 0 { continue; } z += i64.(i); } }", _while_continue),
    st("{ n := 0; x = loop { n += 1; if (x + n) % 4 == 0 { break n * 10; } }; }", _loop_break),
    st("{ i := 0; `outer: while i < 3 { j := 0; while j < 3 { if a[i] == a[j] + 10 { y = u8.(i * 3 + j); break `outer; } j += 1; } i += 1; } }", _nested_break),
    st("x = `blk: { if b { break `blk 11; } 22 };", _set("x", lambda E: 11 if E.b else 22)),
    st("x = if b { 1 } else if y > 7 { 2 } else { 3 };", _set("x", lambda E: 1 if E.b else (2 if E.y > 7 else 3))),
    st("if x > 40 { return; }", _early_return),
]


def run_model(seq):
    E = Env()
    for i in seq:
        MENU[i][1](E)
        if E.done:
            return "".join(E.out)
    E.show()
    return "".join(E.out)


def make_case(seq):
    body = PROLOGUE + "\n" + "\n".join(MENU[i][0] for i in seq) + "\n" + EPILOGUE
    return Case("seq/" + "-".join(str(i) for i in seq), body, run_model(seq), meta={"seq": list(seq)})


# ----------------------------------------------------------------------------------------------
# whole-process behaviour: exit status and runtime faults

def process_programs():
    """-> [(key, source, expected stdout, expected exit status)]"""
    progs = []
    base = 'printf :: (f: str, n: i64) extern;\n'
    for ty, vals in (("i32", [0, 7, 255, 256, 300, -1]), ("u8", [0, 200]), ("i64", [513, -2]), ("u64", [255]),
                     ("i8", [-1, 5]), ("usize", [258]), ("i16", [-256])):
        for v in vals:
            progs.append((f"exit/{ty}/{v}", base + f"main :: () -> {ty} {{ printf(\"ok %ld\\n\", 1); {v if v >= 0 else f'0 - {-v}'} }}\n",
                          "ok 1\n", v & 0xFF, None))
    progs.append(("exit/void", base + 'main :: () { printf("ok %ld\\n", 2); }\n', "ok 2\n", 0, None))
    progs.append(("exit/early-return", base + 'main :: () -> i32 { printf("a %ld\\n", 1); if true { return 9; } printf("b %ld\\n", 2); 3 }\n',
                  "a 1\n", 9, None))
    faults = [
        ("fault/index", 'main :: () -> i32 { a := i32.[1, 2, 3]; i := 3; printf("a %ld\\n", 1); x := a[i]; printf("b %ld\\n", i64.(x)); 0 }\n',
         "a 1\n", 1, "index out of bounds"),
        ("fault/slice-index", 'main :: () -> i32 { a := i32.[1, 2, 3]; s : []i32 = a; i := 7; printf("a %ld\\n", 1); x := s[i]; printf("b %ld\\n", i64.(x)); 0 }\n',
         "a 1\n", 1, "index out of bounds"),
        ("fault/unwrap-optional", 'main :: () -> i32 { o : ?i32 = nil; printf("a %ld\\n", 1); x := #unwrap(o, i32); printf("b %ld\\n", i64.(x)); 0 }\n',
         "a 1\n", 1, "unwrap"),
        ("fault/unwrap-enum", 'E :: enum { A: i32, B };\nmain :: () -> i32 { e : E = E.B; printf("a %ld\\n", 1); x := #unwrap(e, E.A); printf("b %ld\\n", i64.(x)); 0 }\n',
         "a 1\n", 1, "unwrap"),
    ]
    for k, src, out, rc, msg in faults:
        progs.append((k, base + src, out, rc, msg))
    return progs


def run_process_family(root, mod):
    import concurrent.futures
    import os
    progs = process_programs()
    mism = []

    def one(i_p):
        i, (key, src, out, rc, msg) = i_p
        res = core.run_capy(os.path.join(root, f"proc{i}"), {"main.capy": src}, mod)
        got = res.run_out.decode("utf8", "replace")
        ok = (not res.errors and not res.panicked and res.run_rc == rc and got.startswith(out)
              and (msg is None and got == out or msg is not None and msg in got[len(out):] and "b " not in got))
        if ok:
            return None
        c = Case(key, "", out, meta={"standalone": src, "exit": rc})
        kind = "rejected" if res.errors else ("compiler-panic" if res.panicked else "wrong-process-behaviour")
        return core.Mismatch(c, kind, res.summary(), f"expected stdout {out!r} (+ fault message {msg!r}) and status {rc}")

    with concurrent.futures.ThreadPoolExecutor(core.THREADS) as pool:
        for m in pool.map(one, enumerate(progs)):
            if m:
                mism.append(m)
    return len(progs), mism


# ----------------------------------------------------------------------------------------------
# equality on every type (README: `==` / `!=` work on all types other than pointers, slices and any)

def equality_cases(quick):
    from . import c02, tyir
    from .tyir import Arr, Opt, Struct
    tys = [t for t in c02.universe(quick) if not (isinstance(t, Struct) and t.name.startswith("B") and t.name[1:].isdigit()
                                                   and int(t.name[1:]) not in (1, 2, 3, 5, 8, 9, 16, 17, 33, 64))]
    extra = [Arr(2, t) for t in tys if isinstance(t, (Opt, tyir.ErrU, tyir.Enum)) or (isinstance(t, Struct) and t.name.startswith("M"))]
    extra += [Arr(3, Opt(tyir.I64)), Arr(2, Opt(tyir.U8)), Arr(3, tyir.Struct("M5", [("a", tyir.U64), ("b", tyir.U8)]))]
    tys = tys + extra
    prelude = c02.BASE + tyir.all_decls(tys) + "\n"
    cases = []
    for i, T in enumerate(tys):
        for shape in T.shapes():
            v = T.val(100 + i, shape)
            others = [v] + list(tyir.mutants(T, v))
            body = [f"x : {T.spell()} = {T.lit(v)};"]
            out = []
            for k, o in enumerate(others):
                body.append(f"y{k} : {T.spell()} = {T.lit(o)};")
                body.append(f"if x == y{k} {{ pr(1); }} else {{ pr(0); }} if x != y{k} {{ pr(1); }} else {{ pr(0); }} "
                            f"if y{k} == x {{ pr(1); }} else {{ pr(0); }}")
                eq = T.leaves(o) == T.leaves(v)
                out += [1, 0, 1] if eq else [0, 1, 0]
            cases.append(Case(f"eq/{T.spell()}/{shape}", "\n".join(body), "".join(f"{x} " for x in out)))
    return cases, prelude


def run(tier, seed):
    started = time.time()
    quick = tier == "quick"
    k = 2 if quick else 3
    n = len(MENU)
    seqs = [()]
    for depth in range(1, k + 1):
        seqs += list(itertools.product(range(n), repeat=depth))
    cases = [make_case(s) for s in seqs]
    runner = core.Runner("c01", batch_size=100, prelude=PRELUDE)
    mism = runner.run(cases)
    nproc, pm = run_process_family(runner.root, runner.mod)
    eq_cases, eq_prelude = equality_cases(quick)
    eq_runner = core.Runner("c01eq", batch_size=40, prelude=eq_prelude)
    em = eq_runner.run(eq_cases)
    # enums whose variants mix automatic and hand-written discriminants: every variant stays distinguishable
    # (shared with C11, where the family lives)
    from . import c11
    dp_cases = c11.discriminant_pattern_cases(quick)
    dp_runner = core.Runner("c01dp", batch_size=40, prelude=c11.BASE + "pb :: (b: bool) { if b { pr(1); } else { pr(0); } }\n")
    em += dp_runner.run(dp_cases)
    eq_cases = eq_cases + dp_cases
    outcomes = {c.expected for c in cases}
    if len(outcomes) < 200:
        core.machinery_failure("vacuous run")
    coverage = {
        "states": len(outcomes),
        "transitions": sum(len(c.meta["seq"]) for c in cases) + nproc + sum(len(c.expected.split()) for c in eq_cases),
        "traces_validated_against_impl": len(cases) + nproc + len(eq_cases),
        "exhaustive": True,
        "rule": "a trace is a statement sequence over the menu (each a program compiled by the real CLI and executed); states = distinct "
                "model end states (printed environments); transitions = statements executed",
        "bounds_completed": {"menu_statements": n, "max_sequence_length": k, "programs": len(cases), "process_level_programs": nproc,
                             "equality_family": f"{len(eq_cases)} (type, shape) cases: x == y, x != y, y == x for y = x and every single-leaf / variant mutant of x"},
        "distinct_outcomes": len(outcomes),
        "compilations": runner.compiles + nproc,
        "samples": [{"case": c.key, "statements": [MENU[i][0] for i in c.meta["seq"]], "expected": c.expected} for c in (cases[1], cases[n + 5], cases[-1])],
    }
    core.finish("C01", tier, seed, started, coverage, mism + pm + em, None, assumptions=[
        "sub-expressions with side effects are only placed at statement level, so no evaluation order is assumed",
        "the bounds of the quantifier (40 statements, depth 6, 12 globals) are not reached: sequences of <= 3 menu statements over a 15-variable environment",
    ])
