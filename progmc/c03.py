"""C03 – each executed defer runs exactly once, in LIFO order, on every exit path.

Enumerates every control skeleton of the grammar

    Blk  ::= { Item* }
    Item ::= defer print | print | Blk | `L: Blk | while Blk | `L: while Blk | loop Blk | if Blk | Exit
    Exit ::= break | break `L | continue | continue `L | return | nil().try      (last item of its block)

up to a number of items and a nesting depth.  Every defer prints its own upper-case letter, every
plain print its own lower-case letter.  Conditions are driven by the innermost loop counter (or by
the function's parameter outside of loops) so that both outcomes of every `if` are taken.
The model is an interpreter with an explicit defer stack per block.
"""
import time

from . import core
from .core import Case

PRELUDE = '''printf :: (f: str, n: i64) extern;
putchar :: (c: char) -> i32 extern;
mark :: (n: i64) { printf("\\n@%ld\\n", n); }
nilf :: () -> ?i32 { nil }
Oops :: enum { Bad, Worse };
oopsf :: () -> Oops!i32 { Oops.Bad }
Nothing :: struct {};
nothingf :: () -> Nothing!i32 { Nothing.{} }
'''

# skeleton nodes: tuples
#   ("D",) defer print        ("P",) print
#   ("B", label|None, items)  plain / labelled block
#   ("W", label|None, items)  while (2 iterations)      ("O", items) loop (leaves by a generated break on the 3rd iteration)
#   ("V", items) while whose condition block breaks out of the loop on its 3rd evaluation
#   ("I", items)              if (taken when the driving counter == 1)
#   ("X", kind, label|None)   exit: kind in break, continue, return, try


def gen_blocks(budget, depth, ctx):
    """all item lists with at most `budget` items in total (nested items count).
    ctx = (loops: tuple of labels-or-None of enclosing loops (innermost last),
           blocks: tuple of labels of enclosing labelled blocks and loops in nesting order: (kind, label))"""
    results = [((), 0)]  # (items, used)

    def extend(prefix, used):
        yield prefix, used
        if used >= budget:
            return
        for item, cost in gen_items(budget - used, depth, ctx):
            new = prefix + (item,)
            if item[0] == "X":
                # an exit is the last item of its block
                yield new, used + cost
            else:
                yield from extend(new, used + cost)

    return extend((), 0)


def gen_items(budget, depth, ctx):
    loops, targets = ctx
    yield ("D",), 1
    yield ("J",), 1
    yield ("P",), 1
    # exits
    inner_break_target = next((t for t in reversed(targets) if t[0] == "loop" or t[1]), None)
    if inner_break_target:
        yield ("X", "break", None), 1
    for kind, label in targets:
        if label:
            yield ("X", "break", label), 1
    if loops:
        yield ("X", "continue", None), 1
        for label in loops:
            if label:
                yield ("X", "continue", label), 1
    yield ("X", "return", None), 1
    yield ("X", "try", None), 1
    if depth <= 0 or budget < 2:
        return
    nlabels = sum(1 for t in targets if t[1])
    new_label = "lmn"[nlabels] if nlabels < 3 else None
    for items, used in gen_blocks(budget - 1, depth - 1, (loops, targets + (("block", None),))):
        if items:
            yield ("B", None, items), used + 1
        yield ("I", items), used + 1
    if new_label:
        for items, used in gen_blocks(budget - 1, depth - 1, (loops, targets + (("block", new_label),))):
            if items:
                yield ("B", new_label, items), used + 1
    for items, used in gen_blocks(budget - 1, depth - 1, (loops + (None,), targets + (("loop", None),))):
        if items:
            yield ("W", None, items), used + 1
            yield ("O", items), used + 1
            yield ("V", items), used + 1
    if new_label:
        for items, used in gen_blocks(budget - 1, depth - 1, (loops + (new_label,), targets + (("loop", new_label),))):
            if items and uses_label(items, new_label):
                yield ("W", new_label, items), used + 1


def uses_label(items, label):
    for it in items:
        if it[0] == "X" and it[2] == label:
            return True
        if it[0] in ("B", "W") and uses_label(it[2], label):
            return True
        if it[0] in ("O", "V", "I") and uses_label(it[1], label):
            return True
    return False


def interesting(items):
    """a skeleton needs at least one defer to say anything about defers"""
    for it in items:
        if it[0] in ("D", "J"):
            return True
        if it[0] in ("B", "W") and interesting(it[2]):
            return True
        if it[0] in ("O", "V", "I") and interesting(it[1]):
            return True
    return False


# ----------------------------------------------------------------------------------------------
# printing

class Printer:
    def __init__(self, form="opt-i32-tail"):
        self.form = form
        self.lines = []
        self.n_defer = 0
        self.n_print = 0
        self.n_loop = 0

    def block(self, items, ind, counter):
        for it in items:
            k = it[0]
            pad = "    " * ind
            if k == "D":
                ch = chr(ord("A") + self.n_defer)
                self.n_defer += 1
                self.lines.append(f"{pad}defer putchar('{ch}');")
            elif k == "J":
                # a defer whose expression contains a jump of its own (a labelled block that is left by `break`)
                ch = chr(ord("A") + self.n_defer)
                self.n_defer += 1
                self.lines.append(f"{pad}defer {{ putchar('{ch}'); `dj{self.n_defer}: {{ if {counter} < 99 {{ break `dj{self.n_defer}; }} putchar('!'); }} putchar('{ch.lower()}'); }};")
            elif k == "P":
                ch = chr(ord("a") + 13 + self.n_print)
                self.n_print += 1
                self.lines.append(f"{pad}putchar('{ch}');")
            elif k == "B":
                lab = f"`{it[1]}: " if it[1] else ""
                self.lines.append(f"{pad}{lab}{{")
                self.block(it[2], ind + 1, counter)
                self.lines.append(f"{pad}}}")
            elif k == "I":
                self.lines.append(f"{pad}if {counter} == 1 {{")
                self.block(it[1], ind + 1, counter)
                self.lines.append(f"{pad}}}")
            elif k == "W":
                c = f"i{self.n_loop}"
                self.n_loop += 1
                lab = f"`{it[1]}: " if it[1] else ""
                self.lines.append(f"{pad}{c} := 0;")
                self.lines.append(f"{pad}{lab}while {c} < 2 {{")
                self.lines.append(f"{pad}    {c} += 1;")
                self.block(it[2], ind + 1, c)
                self.lines.append(f"{pad}}}")
            elif k == "O":
                c = f"i{self.n_loop}"
                self.n_loop += 1
                self.lines.append(f"{pad}{c} := 0;")
                self.lines.append(f"{pad}loop {{")
                self.lines.append(f"{pad}    {c} += 1;")
                self.lines.append(f"{pad}    if {c} > 2 {{ break; }}")
                self.block(it[1], ind + 1, c)
                self.lines.append(f"{pad}}}")
            elif k == "V":
                # a `while` whose condition is a block that leaves the loop by its own `break` on the 3rd evaluation
                c = f"i{self.n_loop}"
                self.n_loop += 1
                self.lines.append(f"{pad}{c} := 0;")
                self.lines.append(f"{pad}while {{ {c} += 1; if {c} > 2 {{ break; }} true }} {{")
                self.block(it[1], ind + 1, c)
                self.lines.append(f"{pad}}}")
            elif k == "X":
                kind, label = it[1], it[2]
                lab = f" `{label}" if label else ""
                if kind == "break":
                    self.lines.append(f"{pad}break{lab};")
                elif kind == "continue":
                    self.lines.append(f"{pad}continue{lab};")
                elif kind == "return":
                    self.lines.append(f"{pad}{RETURNS.get(self.form, 'return;')}")
                else:
                    self.lines.append(f"{pad}{TRY_CALLS[self.form]}().try;")


FORMS = {
    # form -> (result type, tail line)
    "opt-i32-tail": (" -> ?i32", "    7\n"),
    "void": ("", ""),             # the body falls off its end; `return;`
    "opt-void": (" -> ?void", ""),  # a block type that can be created from nothing but is not zero-sized
    "err-void": (" -> Oops!void", ""),
    "err-i32-tail": (" -> Oops!i32", "    7\n"),
    # the error type has no data: the result of the function (and the target of `.try`) is zero-sized
    "zero-sized-error": (" -> Nothing", "    Nothing.{}\n"),
}
RETURNS = {"opt-i32-tail": "return 5;", "err-i32-tail": "return 5;", "zero-sized-error": "return Nothing.{};"}
TRY_CALLS = {"opt-i32-tail": "nilf", "opt-void": "nilf", "void": "nilf", "err-void": "oopsf", "err-i32-tail": "oopsf", "zero-sized-error": "nothingf"}


def render(items, name, form="opt-i32-tail"):
    p = Printer(form)
    p.block(items, 1, "n")
    ret, tail = FORMS[form]
    return f"{name} :: (n: i32){ret} {{\n" + "\n".join(p.lines) + "\n" + tail + "}\n"


# ----------------------------------------------------------------------------------------------
# the reference interpreter (and the defect models of the known findings)

class Jump(Exception):
    def __init__(self, kind, label=None):
        self.kind = kind  # break / continue / return
        self.label = label


class Interp:
    """defects: a set of model names
       'unreached-defers-run'   a jump to a block's own exit (break to its label / return to the function
                                body) also runs the defers of that block that come after the jump
       'continue-skips-defers'  `continue` jumps to the loop header without running the defers of the blocks it leaves
       'break-from-loop-runs-outer-defers'  `break` out of a loop runs every pending defer of the function
                                (they stay pending and run again)"""

    def __init__(self, defects=()):
        self.out = []
        self.n_defer = 0
        self.n_print = 0
        self.defects = set(defects)

    def number(self, items):
        """assign letters in printing order (must match Printer)"""
        res = []
        for it in items:
            k = it[0]
            if k == "D":
                res.append(("D", chr(ord("A") + self.n_defer)))
                self.n_defer += 1
            elif k == "J":
                ch = chr(ord("A") + self.n_defer)
                res.append(("D", ch + ch.lower()))
                self.n_defer += 1
            elif k == "P":
                res.append(("P", chr(ord("a") + 13 + self.n_print)))
                self.n_print += 1
            elif k in ("B", "W"):
                res.append((k, it[1], self.number(it[2])))
            elif k in ("O", "V", "I"):
                res.append((k, self.number(it[1])))
            else:
                res.append(it)
        return res

    def run_function(self, items, n):
        self.out = []
        self.frames = []  # every open block, innermost last: list of pending defer letters
        try:
            self.block(items, n, is_function=True)
        except Jump as j:
            assert j.kind == "return", j.kind
        return "".join(self.out)

    def block(self, items, counter, label=None, is_function=False):
        frame = {"defers": [], "all": [it[1] for it in items if it[0] == "D"]}
        self.frames.append(frame)
        try:
            for it in items:
                k = it[0]
                if k == "D":
                    frame["defers"].append(it[1])
                elif k == "P":
                    self.out.append(it[1])
                elif k == "B":
                    try:
                        self.block(it[2], counter, label=it[1])
                    except Jump as j:
                        if j.kind == "break" and ((j.label is None and it[1]) or (j.label is not None and j.label == it[1])):
                            pass
                        else:
                            raise
                elif k == "I":
                    if counter[0] == 1:
                        self.block(it[1], counter)
                elif k in ("W", "O", "V"):
                    body = it[2] if k == "W" else it[1]
                    label_ = it[1] if k == "W" else None
                    c = [0]
                    while True:
                        if k == "W" and not c[0] < 2:
                            break
                        c[0] += 1
                        if k in ("O", "V") and c[0] > 2:
                            break
                        try:
                            self.block(body, c)
                        except Jump as j:
                            mine = j.label is None or j.label == label_
                            if j.kind == "break" and mine:
                                if "break-from-loop-runs-outer-defers" in self.defects:
                                    # every pending defer of the enclosing blocks ran at the break (and stays pending)
                                    pass
                                break
                            if j.kind == "continue" and mine:
                                continue
                            raise
                elif k == "X":
                    kind = "return" if it[1] in ("return", "try") else it[1]
                    raise Jump(kind, it[2])
        except Jump as j:
            self.leave(frame, j, label, is_function)
            raise
        else:
            self.run_defers(frame["defers"])
        finally:
            self.frames.pop()

    def leave(self, frame, j, label, is_function):
        """the defers of a block that is left by a jump"""
        if j.kind == "continue" and "continue-skips-defers" in self.defects:
            return
        if j.kind == "break" and j.label is None and "break-from-loop-runs-outer-defers" in self.defects:
            pass
        targets_this = (j.kind == "return" and is_function) or \
                       (j.kind == "break" and label is not None and (j.label is None or j.label == label))
        if targets_this and "unreached-defers-run" in self.defects:
            # the block's exit code runs every defer of the block, reached or not
            self.run_defers(frame["all"])
        else:
            self.run_defers(frame["defers"])

    def run_defers(self, letters):
        for ch in reversed(letters):
            self.out.append(ch)


def expected_output(items, defects=()):
    it = Interp(defects)
    numbered = it.number(items)
    a = it.run_function(numbered, [0])
    b = it.run_function(numbered, [1])
    return a + "|" + b + "\n"


def make_case(idx, items, form="opt-i32-tail"):
    name = f"f{idx}" if form == "opt-i32-tail" else f"f{idx}_{form.replace('-', '_')}"
    decls = render(items, name, form)
    body = f"{name}(0); putchar('|'); {name}(1); putchar('\\n');"
    prefix = "skel" if form == "opt-i32-tail" else f"skel-{form}"
    return Case(f"{prefix}/{idx}/{encode(items)}", body, expected_output(items), decls, meta={"items": items, "form": form})


def has_try(items):
    for it in items:
        if it[0] == "X" and it[1] == "try":
            return True
        if it[0] in ("B", "W") and has_try(it[2]):
            return True
        if it[0] in ("O", "V", "I") and has_try(it[1]):
            return True
    return False


def encode(items):
    out = []
    for it in items:
        k = it[0]
        if k in ("D", "P", "J"):
            out.append(k)
        elif k == "B":
            out.append(("`" + it[1] + ":" if it[1] else "") + "{" + encode(it[2]) + "}")
        elif k == "W":
            out.append(("`" + it[1] + ":" if it[1] else "") + "W{" + encode(it[2]) + "}")
        elif k in ("O", "V"):
            out.append(k + "{" + encode(it[1]) + "}")
        elif k == "I":
            out.append("I{" + encode(it[1]) + "}")
        else:
            out.append({"break": "b", "continue": "c", "return": "r", "try": "t"}[it[1]] + (it[2] or ""))
    return "".join(out)


def count_items(items):
    n = 0
    for it in items:
        n += 1
        if it[0] in ("B", "W"):
            n += count_items(it[2])
        elif it[0] in ("O", "V", "I"):
            n += count_items(it[1])
    return n


MODELS = ["unreached-defers-run", "continue-skips-defers", "break-from-loop-runs-outer-defers"]


def explains(model, m):
    if m.kind != "wrong-output":
        return False
    items = m.case.meta["items"]
    return m.observed.get("out") == expected_output(items, [model])[:400]


def run(tier, seed):
    started = time.time()
    quick = tier == "quick"
    budget, depth = (4, 2) if quick else (5, 3)
    skeletons = []
    seen = set()
    for items, used in gen_blocks(budget, depth, ((), ())):
        if not items or not interesting(items):
            continue
        key = encode(items)
        if key in seen:
            continue
        seen.add(key)
        skeletons.append(items)
    cases = [make_case(i, items) for i, items in enumerate(skeletons)]
    # the same skeletons in functions whose body falls off its end (void, ?void, E!void results); quick: <= 3 items
    for form in ("void", "opt-void", "err-void", "err-i32-tail", "zero-sized-error"):
        for i, items in enumerate(skeletons):
            if quick and count_items(items) > 3:
                continue
            if has_try(items) and form == "void":
                continue
            cases.append(make_case(i, items, form))
    runner = core.Runner("c03", batch_size=150, prelude=PRELUDE)
    mism = runner.run(cases)
    outcomes = {c.expected for c in cases}
    if len(cases) < 500 or len(outcomes) < 50:
        core.machinery_failure(f"vacuous run: {len(cases)} skeletons, {len(outcomes)} outcomes")
    coverage = {
        "states": len(cases),
        "transitions": sum(c.decls.count("\n") for c in cases),
        "traces_validated_against_impl": len(cases),
        "exhaustive": True,
        "rule": "states = control skeletons (each compiled by the real CLI and run with n = 0 and n = 1); transitions = statements; "
                "the printed character sequence must equal the defer-stack interpreter's",
        "bounds_completed": {"max_items": budget, "max_nesting_depth": depth,
                             "function_forms": list(FORMS),
                             "constructs": ["defer", "defer whose expression contains a jump", "print", "block", "labelled block", "while", "labelled while", "loop", "if",
                                            "break", "break `l", "continue", "continue `l", "return", ".try"]},
        "distinct_outcomes": len(outcomes),
        "compilations": runner.compiles,
        "samples": [{"skeleton": c.key, "source": c.decls, "expected": c.expected} for c in (cases[3], cases[len(cases) // 2], cases[-1])],
    }
    core.finish("C03", tier, seed, started, coverage, mism, explains, assumptions=[
        "a defer's expression is a single putchar, so evaluation order inside the deferred expression plays no role",
        "skeletons larger than the bound (7 items / depth 4 in the quantifier) are not reached",
    ])
