"""C14 – immutable data can never be modified.

Roots: `:=` local, `::` local, value parameter, global, and `^mut` / `^` pointers to a `:=` local bound
by `:=`, by `::` and as parameters.  Every well-typed chain of <= 4 steps from
{.field, [i], explicit deref, auto-deref .field / [i], #unwrap} (optionally parenthesised) over a
struct holding a struct, an array of structs, a `^mut` and a `^` pointer to other structs and an
optional struct  x  {`=`, `+=`, take `^`, take `^mut` and write through it}.

Reference judgement (from the statement): a place is writable iff its root is a `:=` local, or the
path passes through a dereference (explicit or automatic) of a pointer whose type is `^mut`; the
last dereference on the path decides.  `=`, `+=` and `^mut` are accepted iff the place is writable;
`^` is always accepted.  Accepted programs are executed: everything reachable (the root, every alias,
both pointees) is printed after the operation and compared with a reference memory model.
"""
import copy
import itertools
import time

from . import core
from .core import Case

BASE = '''printf :: (f: str, n: i64) extern;
mark :: (n: i64) { printf("\\n@%ld\\n", n); }
pr :: (v: i64) { printf("%ld ", v); }
In :: struct { v: i32, w: [2]i32 };
Mid :: struct { i: In, a: [2]In, pm: ^mut In, pi: ^In, o: ?In, ap: [1]^In, am: [1]^mut In, op: ?^In, om: ?^mut In };
idp :: (p: ^Mid) -> ^Mid { p }
idpm :: (p: ^mut Mid) -> ^mut Mid { p }
gg :: comptime { In.{ v = 71, w = i32.[72, 73] } };
show_in :: (x: In) { pr(i64.(x.v)); pr(i64.(x.w[0])); pr(i64.(x.w[1])); }
show_mid :: (x: Mid) {
    show_in(x.i); show_in(x.a[0]); show_in(x.a[1]); show_in(x.pm^); show_in(x.pi^);
    switch sq in x.o { In => show_in(sq), nil => pr(-1) }
}
'''

SETUP = '''t1 := In.{ v = 1, w = i32.[2, 3] };
t2 := In.{ v = 4, w = i32.[5, 6] };
t3 := In.{ v = 40, w = i32.[41, 42] };
lm := Mid.{ i = In.{ v = 7, w = i32.[8, 9] }, a = In.[In.{ v = 10, w = i32.[11, 12] }, In.{ v = 13, w = i32.[14, 15] }], pm = ^mut t1, pi = ^t2, o = In.{ v = 16, w = i32.[17, 18] }, ap = .[^t2], am = .[^mut t1], op = ^t2, om = ^mut t1 };'''


def fresh_mem():
    t1 = {"v": 1, "w": [2, 3]}
    t2 = {"v": 4, "w": [5, 6]}
    t3 = {"v": 40, "w": [41, 42]}
    lm = {"i": {"v": 7, "w": [8, 9]}, "a": [{"v": 10, "w": [11, 12]}, {"v": 13, "w": [14, 15]}],
          "pm": ("ptr", t1, True), "pi": ("ptr", t2, False), "o": ["some", {"v": 16, "w": [17, 18]}],
          "ap": [("ptr", t2, False)], "am": [("ptr", t1, True)], "op": ["some", ("ptr", t2, False)], "om": ["some", ("ptr", t1, True)]}
    return t1, t2, lm, t3


def leaves_in(x):
    return [x["v"], x["w"][0], x["w"][1]]


def leaves_mid(m):
    out = leaves_in(m["i"]) + leaves_in(m["a"][0]) + leaves_in(m["a"][1]) + leaves_in(m["pm"][1]) + leaves_in(m["pi"][1])
    out += leaves_in(m["o"][1]) if m["o"][0] == "some" else [-1]
    return out


def copy_mid(m):
    """value copy: pointers keep pointing at the same objects"""
    return {"i": copy.deepcopy(m["i"]), "a": copy.deepcopy(m["a"]), "pm": m["pm"], "pi": m["pi"], "o": copy.deepcopy(m["o"]),
            "ap": list(m["ap"]), "am": list(m["am"]), "op": list(m["op"]), "om": list(m["om"])}


# types: "Mid", "In", "AIn" ([2]In), "AI" ([2]i32), "i32", "PMIn" (^mut In), "PIn" (^In), "OIn" (?In), "PMMid", "PMid"
STEPS = {
    "Mid": [(".i", "In"), (".a", "AIn"), (".pm", "PMIn"), (".pi", "PIn"), (".o", "OIn"), (".ap", "APIn"), (".am", "APMIn"), (".op", "OPIn"), (".om", "OPMIn")],
    "OPIn": [("unwrap", "PIn")],
    "OPMIn": [("unwrap", "PMIn")],
    # pointers to pointers: every dereference on the way has to be of a `^mut`
    "PMPIn": [("^", "PIn")],
    "PMPMIn": [("^", "PMIn")],
    "APIn": [("[0]", "PIn")],
    "APMIn": [("[0]", "PMIn")],
    "In": [(".v", "i32"), (".w", "AI")],
    "AIn": [("[0]", "In"), ("[1]", "In")],
    "AI": [("[1]", "i32")],
    "PMIn": [("^", "In"), (".v", "i32"), (".w", "AI")],
    "PIn": [("^", "In"), (".v", "i32"), (".w", "AI")],
    "PMMid": [("^", "Mid"), (".i", "In"), (".a", "AIn"), (".pm", "PMIn"), (".pi", "PIn"), (".ap", "APIn"), (".am", "APMIn"), (".op", "OPIn"), (".om", "OPMIn")],
    "PMid": [("^", "Mid"), (".i", "In"), (".a", "AIn"), (".pm", "PMIn"), (".pi", "PIn"), (".ap", "APIn"), (".am", "APMIn"), (".op", "OPIn"), (".om", "OPMIn")],
    "OIn": [("unwrap", "In")],
    "PMAPIn": [("^", "APIn"), ("[0]", "PIn")],
    "PAPMIn": [("^", "APMIn"), ("[0]", "PMIn")],
    "i32": [],
}
PTR_MUT = {"PMIn": True, "PIn": False, "PMMid": True, "PMid": False, "PMAPIn": True, "PAPMIn": False, "PMPIn": True, "PMPMIn": True}
UNDER = {"PMIn": "In", "PIn": "In", "PMMid": "Mid", "PMid": "Mid", "PMAPIn": "APIn", "PAPMIn": "APMIn", "PMPIn": "PIn", "PMPMIn": "PMIn"}


def paths(ty, maxlen):
    """all step chains from a value of type ty: [(steps, final type)]"""
    res = [((), ty)]
    frontier = [((), ty)]
    for _ in range(maxlen):
        nxt = []
        for steps, t in frontier:
            for s, t2 in STEPS[t]:
                nxt.append((steps + ((s, t, t2),), t2))
        res += nxt
        frontier = nxt
    return res


def spell(root_expr, steps, paren_at=None):
    e = root_expr
    for k, (s, t, t2) in enumerate(steps):
        if paren_at == k:
            e = f"({e})"
        if s == "unwrap":
            e = f"#unwrap({e})"
        else:
            e = e + s
    return e


class Root:
    def __init__(self, name, ty, expr, writable, bind, in_helper=None):
        self.name, self.ty, self.expr, self.writable, self.bind, self.in_helper = name, ty, expr, writable, bind, in_helper


ROOTS = [
    Root("local-mut", "Mid", "lm", True, ""),
    Root("local-const", "Mid", "lc", False, "lc :: lm;"),
    Root("param-value", "Mid", "pp", False, None, in_helper=("pp: Mid", "lm")),
    Root("global", "In", "gg", False, ""),
    Root("ptrmut-by-mut", "PMMid", "rm", True, "rm := ^mut lm;"),
    Root("ptrmut-by-const", "PMMid", "rmc", False, "rmc :: ^mut lm;"),
    Root("ptr-by-mut", "PMid", "ri", True, "ri := ^lm;"),
    Root("ptr-by-const", "PMid", "ric", False, "ric :: ^lm;"),
    Root("param-ptrmut", "PMMid", "pq", False, None, in_helper=("pq: ^mut Mid", "^mut lm")),
    Root("param-ptr", "PMid", "pz", False, None, in_helper=("pz: ^Mid", "^lm")),
    # pointers to arrays of pointers: the array is indexed *through* the pointer (auto-deref), then the element is dereferenced
    Root("ptrmut-to-array-of-ptr", "PMAPIn", "pap", True, "pap := ^mut lm.ap;"),
    Root("ptr-to-array-of-ptrmut", "PAPMIn", "pam", True, "pam := ^lm.am;"),
    # pointers to a struct as the place itself: rebinding the pointer variable / taking ^mut of it
    Root("ptrIn-by-mut", "PMIn", "qa", True, "qa := ^mut t1;"),
    Root("ptrIn-by-const", "PMIn", "qc", False, "qc :: ^mut t1;"),
    Root("ptrIn-annotated-const", "PMIn", "qd", False, "qd : ^mut In : ^mut t1;"),
    Root("ptrIn-annotated-mut", "PMIn", "qe", True, "qe : ^mut In = ^mut t1;"),
    Root("ptrIn-param", "PMIn", "qp", False, None, in_helper=("qp: ^mut In", "^mut t1")),
    Root("param-ptrmut-to-array-of-ptr", "PMAPIn", "pq2", False, None, in_helper=("pq2: ^mut [1]^In", "^mut lm.ap")),
    # a `^mut` pointer to a pointer field: the inner pointer's own type still decides
    Root("ptrmut-to-ptr", "PMPIn", "pmp", True, "pmp := ^mut lm.pi;"),
    Root("ptrmut-to-ptrmut", "PMPMIn", "pmm", True, "pmm := ^mut lm.pm;"),
    # pointers that come out of a call, bound to a local and used directly
    Root("ptr-from-call", "PMid", "rc", True, "rc := idp(^lm);"),
    Root("ptrmut-from-call", "PMMid", "rcm", True, "rcm := idpm(^mut lm);"),
    Root("call-returning-ptr", "PMid", "idp(^lm)", False, ""),
    Root("call-returning-ptrmut", "PMMid", "idpm(^mut lm)", False, ""),
]

NEW = {
    "i32": ("99", 99),
    "In": ("In.{ v = 90, w = i32.[91, 92] }", {"v": 90, "w": [91, 92]}),
    "AI": ("i32.[93, 94]", [93, 94]),
    "AIn": ("In.[In.{ v = 80, w = i32.[81, 82] }, In.{ v = 83, w = i32.[84, 85] }]", [{"v": 80, "w": [81, 82]}, {"v": 83, "w": [84, 85]}]),
}


def walk(mem_root, root, steps):
    """-> (container, key, writable, judged) of the place, following the reference judgement.
    `judged` is False when the path first passes through immutable data (a field of an immutable
    binding, or the target of a `^` pointer) and later through a `^mut` pointer stored in it: the
    statement does not say which wins."""
    t1, t2, lm, rootval = mem_root
    writable = root.writable
    tainted = False
    judged = True
    holder = {"r": rootval}
    cont, key = holder, "r"
    for s, t, t2_ in steps:
        cur = cont[key]
        if t in PTR_MUT:
            target = cur[1]
            if PTR_MUT[t]:
                if tainted:
                    judged = False
                writable = True
            else:
                writable = False
                tainted = True
            if s == "^":
                if isinstance(target, _Slot):
                    cont, key = target.holder, target.key  # the pointee is itself a pointer-typed place
                else:
                    cont, key = _ident_place(target)
                continue
            cur = target
        elif not writable:
            tainted = True
        if s.startswith("."):
            cont, key = cur, s[1:]
        elif s.startswith("["):
            cont, key = cur, int(s[1:-1])
        elif s == "unwrap":
            cont, key = cur, 1
    return cont, key, writable, judged


class _Slot:
    """the pointee of a pointer to a pointer-typed place (a field of the model memory)"""

    def __init__(self, holder, key):
        self.holder, self.key = holder, key


class _Whole:
    """a place denoting a whole heap object (target of an explicit deref)"""

    def __init__(self, obj):
        self.obj = obj

    def __getitem__(self, k):
        return self.obj

    def __setitem__(self, k, v):
        self.obj.clear()
        self.obj.update(copy.deepcopy(v))


def _ident_place(obj):
    return _Whole(obj), 0


def rootval_holder(cont, key, steps, rootval):
    """the struct a PMIn root variable points at after the operation (the variable may have been rebound)"""
    if not steps:
        cur = cont[key]
        return cur[1] if isinstance(cur, tuple) else rootval[1]
    return rootval[1]


def make_case(root, steps, final_ty, op, paren_at, idx):
    t1, t2, lm, t3 = fresh_mem()
    # root value in the model
    if root.ty == "Mid":
        if root.name == "local-mut":
            rootval = lm
        else:
            rootval = copy_mid(lm)  # `lc :: lm` and a value parameter are copies
    elif root.ty == "In":
        rootval = {"v": 71, "w": [72, 73]}
    elif root.ty == "PMIn":
        rootval = ("ptr", t1, True)
    elif root.ty == "PMAPIn":
        rootval = ("ptr", lm["ap"], True)
    elif root.ty == "PAPMIn":
        rootval = ("ptr", lm["am"], False)
    elif root.ty == "PMPIn":
        rootval = ("ptr", _Slot(lm, "pi"), True)
    elif root.ty == "PMPMIn":
        rootval = ("ptr", _Slot(lm, "pm"), True)
    else:
        rootval = ("ptr", lm, PTR_MUT[root.ty])
    place = spell(root.expr, steps, paren_at)
    cont, key, writable, judged = walk((t1, t2, lm, rootval), root, steps)
    if not judged:
        return None
    lit, val = NEW.get(final_ty, (None, None))
    if final_ty == "PMIn":
        # rebinding a `^mut In` place to the third pointee (inside a helper the pointee comes in as a parameter)
        lit, val = ("t3p" if root.in_helper else "^mut t3"), ("ptr", t3, True)
    stmts = []
    if op == "assign":
        stmts.append(f"{place} = {lit};")
        ok = writable
        if ok:
            cont[key] = val if final_ty == "PMIn" else copy.deepcopy(val)
    elif op == "compound":
        stmts.append(f"{place} += 1;")
        ok = writable
        if ok:
            cont[key] = cont[key] + 1
    elif op == "ref":
        stmts.append(f"rq := ^({place}); pr(i64.(rq{'^' if final_ty == 'i32' else '.v' if final_ty == 'In' else '[1]' if final_ty == 'AI' else '^.v' if final_ty == 'PMIn' else '[1].v'}));")
        ok = True
    else:  # refmut: take ^mut and write through it
        sel = {"i32": "^", "In": ".v", "AI": "[1]", "AIn": "[1].v", "PMIn": "^"}[final_ty]
        stmts.append(f"mq := ^mut ({place}); mq{sel} = {lit if final_ty == 'PMIn' else 55};")
        ok = writable
        if ok:
            cur = cont[key]
            if final_ty == "i32":
                cont[key] = 55
            elif final_ty == "PMIn":
                cont[key] = val
            elif final_ty == "In":
                cur["v"] = 55
            elif final_ty == "AI":
                cur[1] = 55
            else:
                cur[1]["v"] = 55
    out = []
    if op == "ref":
        cur = cont[key]
        out.append(cur if final_ty == "i32" else cur["v"] if final_ty == "In" else cur[1] if final_ty == "AI" else cur[1]["v"] if final_ty == "PMIn" else cur[1]["v"])
    # observation: the root copy (if it is one), lm, t1, t2
    obs = []
    if root.name == "local-const":
        obs.append("show_mid(lc);")
        out += leaves_mid(rootval)
    elif root.name == "param-value":
        obs.append("show_mid(pp);")
        out += leaves_mid(rootval)
    if root.ty == "PMIn":
        # where the pointer variable points now
        obs.append(f"show_in({root.expr}^);")
        out += leaves_in(rootval_holder(cont, key, steps, rootval))
    decls = ""
    body = [SETUP]
    tail_obs = "show_mid(lm); show_in(t1); show_in(t2); show_in(t3); show_in(gg);"
    if root.in_helper:
        param, arg = root.in_helper
        decls = f"h_{idx} :: ({param}, t3p: ^mut In) {{\n" + "\n".join(stmts + obs) + "\n}"
        body.append(f"h_{idx}({arg}, ^mut t3);")
    else:
        if root.bind:
            body.append(root.bind)
        body += stmts + obs
    body.append(tail_obs)
    out += leaves_mid(lm) + leaves_in(t1) + leaves_in(t2) + leaves_in(t3) + [71, 72, 73]
    key_s = f"{root.name}/{op}/{place}"
    if ok:
        return Case(key_s, "\n".join(body), "".join(f"{v} " for v in out), decls=decls, meta={"writable": writable})
    return Case(key_s, "\n".join(body), None, decls=decls, accept=False, meta={"writable": writable})


def gen(quick):
    cases = []
    idx = 0
    maxlen = 3 if quick else 4
    for root in ROOTS:
        for steps, fty in paths(root.ty, maxlen):
            if fty not in NEW and fty != "PMIn":
                continue
            if not steps and root.ty != "In":
                pass
            ops = ["assign", "ref", "refmut"] + (["compound"] if fty == "i32" else [])
            if not steps:
                # the bare root: only value roots of a struct type
                if root.ty not in ("Mid", "In", "PMIn"):
                    continue
            if root.ty in ("PMAPIn", "PAPMIn") and maxlen == 3:
                pass
            if fty == "Mid":
                continue
            parens = [None]
            if steps:
                parens.append(len(steps) - 1)      # (prefix).last
                if len(steps) >= 2 and not quick:
                    parens.append(1)
            for op in ops:
                for pa in parens:
                    idx += 1
                    c = make_case(root, steps, fty, op, pa, idx)
                    if c is not None:
                        cases.append(c)
    return cases


def run(tier, seed):
    started = time.time()
    cases = gen(tier == "quick")
    runner = core.Runner("c14", batch_size=80, prelude=BASE)
    mism = runner.run(cases)
    n_acc = sum(1 for c in cases if c.accept)
    if n_acc < 100 or len(cases) - n_acc < 100:
        core.machinery_failure("vacuous run")
    coverage = {
        "states": len(cases),
        "transitions": len(cases),
        "traces_validated_against_impl": len(cases),
        "exhaustive": True,
        "rule": "a case = (root, step chain, parenthesisation, operation); each compiled by the real CLI; accepted ones are executed and every alias printed",
        "bounds_completed": {"roots": [r.name for r in ROOTS], "max_chain": 3 if tier == "quick" else 4,
                             "operations": ["assign", "compound", "ref", "refmut+write"], "expected_accept": n_acc,
                             "expected_reject": len(cases) - n_acc},
        "distinct_outcomes": len({c.expected for c in cases if c.accept}) + 1,
        "compilations": runner.compiles,
        "samples": [{"case": c.key, "accept": c.accept} for c in (cases[0], cases[len(cases) // 2], cases[-1])],
    }
    core.finish("C14", tier, seed, started, coverage, mism, explains, assumptions=[
        "pointers are only produced by ^e / ^mut e of a `:=` local, bound by `:=`, `::` or a parameter, or read from a struct field",
    ])


def explains(model, m):
    return False
