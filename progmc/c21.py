"""C21 – builds are reproducible.

Configurations: the multi-file programs of C20 (valid) under several permutations / file splits, and
invalid variants of them (a type error, an undefined reference, a duplicate definition, a missing
import) whose diagnostics are the output.  For every configuration the same source files are compiled

  * three times in fresh processes and fresh directories (ASLR on),
  * once with address-space randomisation disabled (`setarch -R`),
  * once with a different environment (extra variables, other HOME/TMPDIR),
  * and in *histories*: after 1 or 2 other programs have been compiled in the same working directory
    (stale `out/`), for every ordered choice of predecessors from a set of 3 other programs (quick: 1 predecessor),

and the object file bytes and the complete compiler output (timing suffixes removed) must be identical
in all runs.  Nondeterminism sources inside one process (address-dependent hashing) are *observed*
through the repeated fresh processes, not enumerated; the exhaustive part is over configurations and
histories.
"""
import concurrent.futures
import hashlib
import itertools
import os
import re
import shutil
import subprocess
import time

from . import core, multifile
from .core import Case

TIMING_RE = re.compile(r"(in|took) \d+\.\d+s")


PADDING = "\n" + "".join(f"zz_pad_{i} :: (x: i64) -> i64 {{ x * {i + 3} + {i * 7919} }}\n" for i in range(12)) + \
    "zz_pad_all :: (x: i64) -> i64 { " + " + ".join(f"zz_pad_{i}(x)" for i in range(12)) + " }\n"


def normalise(text):
    return TIMING_RE.sub(r"\1 Xs", text)


def compile_once(jobdir, files, mod, wrapper=(), env_extra=None, clean=True, keep_stale=False):
    """-> (object sha or None, normalised output, exit status)"""
    if clean:
        shutil.rmtree(jobdir, ignore_errors=True)
    os.makedirs(jobdir, exist_ok=True)
    for rel, text in files.items():
        p = os.path.join(jobdir, rel)
        os.makedirs(os.path.dirname(p), exist_ok=True)
        with open(p, "w") as f:
            f.write(text)
    # a stale object must not be mistaken for this compilation's: it is removed, or (history runs, where overwriting the
    # predecessor's object is part of what is checked) back-dated so that a write by this compilation is recognisable
    stale = os.path.join(jobdir, "out", "main.o")
    try:
        if keep_stale:
            os.utime(stale, ns=(10 ** 18, 10 ** 18))
        else:
            os.remove(stale)
    except OSError:
        pass
    env = dict(os.environ)
    env.pop("RUST_BACKTRACE", None)
    if env_extra:
        env.update(env_extra)
    cmd = [*wrapper, core.CAPY, "build", "main.capy", "--mod-dir", mod, "--color", "never", "--no-exec"]
    try:
        p = subprocess.run(cmd, cwd=jobdir, stdout=subprocess.PIPE, stderr=subprocess.STDOUT, timeout=120, env=env)
    except subprocess.TimeoutExpired:
        return None, "TIMEOUT", -1
    # the working directory is part of the configuration's *location*, not of its source files
    out = normalise(p.stdout.decode("utf8", "replace").replace(os.path.realpath(jobdir), "<CWD>").replace(jobdir, "<CWD>"))
    obj = os.path.join(jobdir, "out", "main.o")
    written = os.path.exists(obj) and os.stat(obj).st_mtime_ns != 10 ** 18
    sha = hashlib.sha256(open(obj, "rb").read()).hexdigest() if written else None
    return sha, out, p.returncode


def invalid_variants(base):
    """-> [(name, files)] single-file invalid programs derived from the base"""
    names = [n for n, _ in base.globs]
    assign = dict.fromkeys(names, 0)
    files = multifile.render(base, tuple(names), assign)
    src = files["main.capy"]
    res = []
    res.append(("type-error", dict(files, **{"main.capy": src.replace("main :: () -> i32 {", "main :: () -> i32 {\n    zz : bool = 5;\n    yy : u8 = 300;")})))
    res.append(("undefined", dict(files, **{"main.capy": src.replace("main :: () -> i32 {", "main :: () -> i32 {\n    io.pr(nope1 + nope2);")})))
    res.append(("missing-import", dict(files, **{"main.capy": 'gone :: #import("gone.capy");\n' + src})))
    res.append(("two-files-errors", dict(multifile.render(base, tuple(names), {n: (k % 2) for k, n in enumerate(names)}),
                                         **{"extra.capy": "x :: 5;\n"})))
    return res


def run(tier, seed):
    started = time.time()
    quick = tier == "quick"
    root, mod = core.setup_workdir("c21")
    configs = []  # (key, files)
    for base in multifile.BASES:
        names = [n for n, _ in base.globs]
        picks = [(tuple(names), dict.fromkeys(names, 0)),
                 (tuple(reversed(names)), {n: (k % 3) for k, n in enumerate(names)}),
                 (tuple(names), {n: 1 + (k % 2) for k, n in enumerate(names)})]
        if not quick:
            perms = list(itertools.permutations(names))
            picks += [(p, {n: (k + j) % 3 for k, n in enumerate(names)}) for j, p in enumerate(perms[1:13])]
        for j, (perm, assign) in enumerate(picks):
            configs.append((f"{base.name}/valid{j}", multifile.render(base, perm, assign)))
        for vname, files in invalid_variants(base):
            configs.append((f"{base.name}/{vname}", files))
    # the repository's example programs (they use the core module: hundreds of types, generics, reflection tables)
    import glob
    examples = {os.path.basename(p_): open(p_).read() for p_ in sorted(glob.glob("/repo/examples/*.capy"))}
    for name, text in examples.items():
        # the examples import each other by file name, so every configuration holds all of them
        configs.append((f"example/{name}", dict(examples, **{"main.capy": text})))
    # one large generated program: the 129-type universe of C02 with a use of every type
    from . import c02, tyir
    tys = c02.universe(True)
    big = c02.BASE + tyir.all_decls(tys) + "\nmain :: () -> i32 {\n"
    for i, T in enumerate(tys):
        big += f"    v{i} : {T.spell()} = {T.lit(T.val(i + 1))}; {T.show(f'v{i}', tyir.Fresh(f'q{i}x'))}\n"
    big += "    0\n}\n"
    configs.append(("generated/129-types", {"main.capy": big}))
    # comptime blocks that yield a `type`, choosing between types whose type ids coincide (u64/usize, i64/isize): the result is
    # looked up in a reverse map, and the rest of the program tells the two types apart
    for a, b in (("u64", "usize"), ("usize", "u64"), ("i64", "isize"), ("isize", "i64")):
        for pick_first in (True, False):
            src = (f"printf :: (f: str, n: i64) extern;\nbits :: () -> u32 {{ 64 }}\n"
                   f"Len :: comptime {{ if bits() == {64 if pick_first else 32} {{ {a} }} else {{ {b} }} }};\n"
                   f"bump :: (p: ^mut {b}) {{ p^ = p^ + 1; }}\n"
                   f"main :: () -> i32 {{\n    n : Len = 41;\n    bump(^mut n);\n    printf(\"%ld\\n\", i64.(n));\n    0\n}}\n")
            configs.append((f"comptime-type-choice/{a}-or-{b}/{'first' if pick_first else 'second'}", {"main.capy": src}))
    others = [multifile.render(b, tuple(n for n, _ in b.globs), dict.fromkeys([n for n, _ in b.globs], 0)) for b in multifile.BASES[:3]]
    # ... and one predecessor whose object file is larger than every configuration's (the stale object is overwritten in place)
    others.append({"main.capy": big.replace("    0\n}\n", "    v0.b0 = 1;\n    0\n}\n") if " v0.b0" in big else big + "\npad_fn :: () -> i64 { 12345 }\n"})
    hist_len = 1 if quick else 2
    histories = [()]
    for k in range(1, hist_len + 1):
        histories += list(itertools.permutations(range(len(others)), k))
    mism = []
    runs_total = [0]
    outcomes = set()

    def check(idx_conf):
        idx, (key, files) = idx_conf
        d = os.path.join(root, f"k{idx}")
        results = []
        results.append(("fresh-1", compile_once(d + "a", files, mod)))
        results.append(("fresh-2", compile_once(d + "b", files, mod)))
        results.append(("fresh-3-other-path", compile_once(os.path.join(d + "c", "deeper", "dir"), files, mod)))
        results.append(("no-aslr", compile_once(d + "d", files, mod, wrapper=("setarch", "x86_64", "-R"))))
        results.append(("other-env", compile_once(d + "e", files, mod, env_extra={"HOME": "/nonexistent", "TMPDIR": "/tmp", "FOO": "bar" * 50, "LANG": "C"})))
        if key.startswith("comptime-type-choice/"):
            # an address-dependent choice between two candidates shows up with probability 1/2 per fresh process
            for extra in range(12):
                results.append((f"fresh-extra-{extra}", compile_once(d + "a", files, mod)))
        for h in histories[1:]:
            hd = d + "h" + "".join(map(str, h))
            shutil.rmtree(hd, ignore_errors=True)
            for o in h:
                compile_once(hd, others[o], mod, clean=False, keep_stale=True)
            results.append((f"after-{'-'.join(map(str, h))}", compile_once(hd, files, mod, clean=False, keep_stale=True)))
        # ... and after a slightly larger variant of the configuration itself (its object is at least as long)
        hd = d + "hp"
        shutil.rmtree(hd, ignore_errors=True)
        padded = dict(files, **{"main.capy": files["main.capy"] + PADDING})
        compile_once(hd, padded, mod, clean=False, keep_stale=True)
        results.append(("after-padded-self", compile_once(hd, files, mod, clean=False, keep_stale=True)))
        shutil.rmtree(hd, ignore_errors=True)
        ref = results[0][1]
        problems = []
        for name, r in results[1:]:
            if r[0] != ref[0]:
                problems.append(f"{name}: object file differs from fresh-1 ({r[0]} vs {ref[0]})")
            if r[1] != ref[1]:
                problems.append(f"{name}: compiler output differs from fresh-1")
            if r[2] != ref[2]:
                problems.append(f"{name}: exit status {r[2]} vs {ref[2]}")
        for suffix in "abcde":
            shutil.rmtree(d + suffix, ignore_errors=True)
        for h in histories[1:]:
            shutil.rmtree(d + "h" + "".join(map(str, h)), ignore_errors=True)
        return key, files, len(results), ref, problems

    with concurrent.futures.ThreadPoolExecutor(6) as pool:
        for key, files, n, ref, problems in pool.map(check, enumerate(configs)):
            runs_total[0] += n
            outcomes.add((ref[0] is not None, ref[2]))
            if problems:
                c = Case(key, "", None, meta={"files": files})
                mism.append(core.Mismatch(c, "not-reproducible", {"first": ref[1][-600:]}, "; ".join(problems[:5])))
    if len(outcomes) < 2:
        core.machinery_failure("vacuous run: valid and invalid programs were not both seen")
    coverage = {
        "states": len(configs),
        "transitions": runs_total[0],
        "traces_validated_against_impl": runs_total[0],
        "exhaustive": True,
        "rule": "a state = one configuration (set of source files); a transition = one compilation of it by the real CLI in a fresh process; "
                "all compilations of a configuration must give byte-identical main.o and identical output",
        "bounds_completed": {"configurations": len(configs), "valid": sum(1 for k, _ in configs if "/valid" in k),
                             "invalid": sum(1 for k, _ in configs if "/valid" not in k),
                             "runs_per_configuration": 6 + len(histories) - 1,
                             "histories": f"every ordered choice of <= {hist_len} predecessors out of {len(others)} programs (one with a larger object file than every configuration) compiled before in the same directory, the stale out/ left in place"},
        "distinct_outcomes": len(outcomes),
        "compilations": runs_total[0],
        "samples": [{"config": k, "files": sorted(f)} for k, f in (configs[0], configs[len(configs) // 2], configs[-1])],
    }
    core.finish("C21", tier, seed, started, coverage, mism, None, assumptions=[
        "address-dependent hashing inside one process is observed through repeated fresh processes (ASLR on and off), not enumerated",
        "link step excluded (--no-exec): the property is about the compiler's object file and diagnostics",
    ])
