"""C05 – names resolve to the innermost visible binding; scopes end where they end.

Binding skeletons over the identifier pool {a, b}: a sequence of items, each a declaration of `a`
or `b` (alternating `:=` / `::`, every binding holds its own integer) or one nested scope construct
(plain block, if body, while body, switch arm with argument a / b, local lambda with parameter a / b,
global function with comptime parameter a / b, comptime block), nested up to depth 2, with a *use*
of `a` and of `b` at every program point, under each of the four global configurations (global a /
global b present or absent).

Model: the lookup order of the statement (block locals and switch arguments of the enclosing
blocks of the same function body, innermost and latest first; then the parameter; then the global).
A use with no visible binding must be reported as an undefined reference at exactly that line,
and nothing else may be reported; programs without such uses are executed and must print the
value of the binding each use resolves to.
Uses inside a lambda / comptime body of a name that is bound in the *enclosing* function are not
generated (the statement does not say whether a body sees its creator's locals).
"""
import itertools
import os
import re
import time

from . import core
from .core import Case

BASE = '''printf :: (f: str, n: i64) extern;
mark :: (n: i64) { printf("\\n@%ld\\n", n); }
pr :: (v: i64) { printf("%ld ", v); }
opt :: (v: i32) -> ?i32 { v }
'''

NAMES = ("a", "b")
# what a use prints when it resolves to the built-in: [type name] `T.(7)` -> 7, [nil] `hlp.isnil(nil)` -> 1 (a wrongly resolved integer gives 0 or an error)
BUILTIN_MARK = {False: 7, True: 1}
BUILTIN_POOLS = [{"a": "u8", "b": "nil"}, {"a": "f32", "b": "char"}]
HELPER = "isnil :: (o: ?i32) -> i64 { switch v in o { i32 => 0, nil => 1 } }\n"
KINDS = ["blk", "if", "while", "switch:a", "switch:b", "switchd:a", "switchd:b", "lambda:a", "lambda:b", "cparam:a", "cparam:b", "comptime:a", "comptime:b"]


def leaf_seqs(maxlen):
    res = [()]
    for n in range(1, maxlen + 1):
        res += [tuple(("decl", x) for x in c) for c in itertools.product(NAMES, repeat=n)]
    return res


def seqs(depth, leaf_len, shapes_full, kinds):
    """all item sequences: <= 3 items, at most one child construct"""
    out = list(leaf_seqs(3 if shapes_full else leaf_len))
    if depth == 0:
        return out
    inner = seqs(depth - 1, leaf_len, False, kinds) if depth - 1 > 0 else leaf_seqs(leaf_len)
    decl_opts = [("decl", "a"), ("decl", "b")]
    shapes = []
    if shapes_full:
        for length in (1, 2, 3):
            for pos in range(length):
                for ds in itertools.product(decl_opts, repeat=length - 1):
                    ds = list(ds)
                    shapes.append(tuple(ds[:pos] + ["C"] + ds[pos:]))
    else:
        shapes = [("C",), (("decl", "a"), "C"), ("C", ("decl", "a")), (("decl", "b"), "C")]
    for shape in shapes:
        for kind in kinds:
            for sub in inner:
                out.append(tuple(("child", kind, sub) if it == "C" else it for it in shape))
    return out


class Gen:
    """prints one skeleton as a case body (one statement per line) and resolves every use"""

    def __init__(self, globals_present, spell=None):
        self.globals = globals_present  # subset of NAMES
        # `spell`: the two logical names spelled as built-in names (a type name / `nil`); a use with no visible binding then
        # resolves to the built-in instead of being undefined, and is written in a form that is only valid for that resolution
        self.spell = spell or {"a": "a", "b": "b"}
        self.builtin = spell is not None
        self.k = 0
        self.lines = []
        self.decls = []
        self.out = []          # expected printed values (None entries mark undefined uses)
        self.undef_lines = []  # (relative line index in body, name)
        self.unjudged = False
        self.n = 0

    def fresh_val(self):
        self.k += 1
        return 10 + self.k

    def uid(self):
        self.n += 1
        return self.n

    def emit(self, s):
        self.lines.append(s)

    def resolve(self, name, frames):
        """frames: list of dicts (innermost last) for the current function body; then param dict"""
        for fr in reversed(frames["scopes"]):
            if name in fr:
                return fr[name]
        if name in frames["params"]:
            return frames["params"][name]
        if name in self.globals:
            return 1000 if name == "a" else 2000
        return None

    def uses(self, frames, printing=True):
        for name in NAMES:
            if frames.get("hidden") and name in frames["hidden"]:
                continue  # bound in the creator's body: not judged
            v = self.resolve(name, frames)
            if v is None and self.builtin:
                self.emit(f"pr({self.builtin_use(name)});")
                self.out.append(BUILTIN_MARK[self.spell[name] == "nil"])
                continue
            self.emit(f"pr(i64.({self.spell[name]}));")
            if v is None:
                self.undef_lines.append((len(self.lines) - 1, name))
            else:
                self.out.append(v)

    def builtin_use(self, name):
        sp = self.spell[name]
        return "hlp.isnil(nil)" if sp == "nil" else f"i64.({sp}.(7))"

    def seq(self, items, frames, lines_target=None):
        frames["scopes"].append({})
        self.uses(frames)
        for it in items:
            if it[0] == "decl":
                v = self.fresh_val()
                op = ":=" if v % 2 else "::"
                self.emit(f"{self.spell[it[1]]} {op} {v};")
                frames["scopes"][-1][it[1]] = v
            else:
                self.child(it[1], it[2], frames)
            self.uses(frames)
        frames["scopes"].pop()

    def visible_names(self, frames):
        vis = set(frames.get("hidden") or ())
        for fr in frames["scopes"]:
            vis |= set(fr)
        vis |= set(frames["params"])
        return vis

    def child(self, kind, sub, frames):
        u = self.uid()
        if kind == "blk":
            self.emit("{")
            self.seq(sub, frames)
            self.emit("}")
        elif kind == "if":
            self.emit("if opq(1) == 1 {")
            self.seq(sub, frames)
            self.emit("}")
        elif kind == "while":
            self.emit(f"w{u} := 0;")
            self.emit(f"while w{u} < 1 {{")
            self.seq(sub, frames)
            self.emit(f"w{u} += 1;")
            self.emit("}")
        elif kind.startswith("switch:"):
            name = kind[7:]
            v = self.fresh_val()
            self.emit(f"switch {self.spell[name]} in opt({v}) {{ i32 => {{")
            frames["scopes"].append({name: v})
            self.seq(sub, frames)
            frames["scopes"].pop()
            self.emit("}, nil => {} }")
        elif kind.startswith("switchd:"):
            # the same with a default arm instead of the `nil` arm (the default arm binds the whole optional)
            name = kind[8:]
            v = self.fresh_val()
            self.emit(f"switch {self.spell[name]} in opt({v}) {{ i32 => {{")
            frames["scopes"].append({name: v})
            self.seq(sub, frames)
            frames["scopes"].pop()
            self.emit("}, _ => {} }")
        elif kind.startswith("lambda:"):
            name = kind[7:]
            v = self.fresh_val()
            self.emit(f"f{u} :: ({self.spell[name]}: i32) {{")
            inner = {"scopes": [], "params": {name: v}, "hidden": self.visible_names(frames) - {name}}
            self.seq(sub, inner)
            self.emit("};")
            self.emit(f"f{u}({v});")
        elif kind.startswith("cparam:"):
            # a global function with a comptime parameter (a local generic lambda is not supported by the compiler)
            name = kind[7:]
            v = self.fresh_val()
            saved, self.lines = self.lines, []
            saved_undef, self.undef_lines = self.undef_lines, []
            inner = {"scopes": [], "params": {name: v}}
            self.seq(sub, inner)
            body, und = self.lines, self.undef_lines
            self.lines, self.undef_lines = saved, saved_undef
            gname = f"g_CASE_{u}"
            self.decls.append((gname, self.spell[name], body, und))
            self.emit(f"{gname}({v});")
        elif kind.startswith("comptime:"):
            tail = kind[9:]
            self.emit(f"c{u} := comptime {{")
            inner = {"scopes": [{}], "params": {}, "hidden": self.visible_names(frames)}
            for it in sub:
                if it[0] == "decl":
                    v = self.fresh_val()
                    self.emit(f"{self.spell[it[1]]} := {v};")
                    inner["scopes"][-1][it[1]] = v
            if tail in inner["hidden"] and tail not in inner["scopes"][-1]:
                # bound in the creator's body and not redeclared inside: not judged, use a literal tail
                self.emit("0")
                self.emit("};")
                return
            v = self.resolve(tail, inner)
            if v is None and self.builtin:
                self.emit(self.builtin_use(tail))
                self.emit("};")
                self.emit(f"pr(i64.(c{u}));")
                self.out.append(BUILTIN_MARK[self.spell[tail] == "nil"])
                return
            self.emit(self.spell[tail])
            if v is None:
                self.undef_lines.append((len(self.lines) - 1, tail))
            self.emit("};")
            if v is not None:
                self.emit(f"pr(i64.(c{u}));")
                self.out.append(v)
            else:
                self.emit(f"pr(i64.(c{u}));")


def build_case(skeleton, globals_present, idx, spell=None):
    g = Gen(globals_present, spell)
    g.seq(skeleton, {"scopes": [], "params": {}})
    decl_lines = []
    decl_undef = []
    for gname, pname, body, und in g.decls:
        real = gname.replace("g_CASE_", f"g_{idx}_")
        start = len(decl_lines)
        decl_lines.append(f"{real} :: (comptime {pname}: i32) {{")
        for (li, nm) in und:
            decl_undef.append((start + 1 + li, nm))
        decl_lines += [l.replace("g_CASE_", f"g_{idx}_") for l in body]
        decl_lines.append("}")
    body = [l.replace("g_CASE_", f"g_{idx}_") for l in g.lines]
    key = f"{'+'.join(sorted(globals_present)) or 'none'}/{skel_str(skeleton)}"
    if spell:
        key = f"builtin-names/{spell['a']},{spell['b']}/" + key
    meta = {"undef_body": g.undef_lines, "undef_decls": decl_undef, "ndecl_lines": len(decl_lines)}
    if g.undef_lines or decl_undef:
        c = Case(key, "\n".join(body), None, decls="\n".join(decl_lines), accept=False, reject_re="undefined", meta=meta)
    else:
        c = Case(key, "\n".join(body), "".join(f"{v} " for v in g.out), decls="\n".join(decl_lines), meta=meta)
    return c


def skel_str(items):
    parts = []
    for it in items:
        if it[0] == "decl":
            parts.append("d" + it[1])
        else:
            parts.append(f"{it[1]}({skel_str(it[2])})")
    return ".".join(parts) or "-"


UNDEF_RE = re.compile(r"undefined reference to `(\w+)`")


def check_reject_batch(runner, cases, prelude, jobdir):
    """compiles a batch of cases that all contain undefined uses; the set of reported error lines must be
    exactly the predicted one"""
    src, ranges = core.render_batch(cases, prelude)
    res = core.run_capy(jobdir, {"main.capy": src}, runner.mod, run=False)
    mism = []
    if res.panicked or res.internal_error or res.timed_out:
        return None  # bisect
    got = {}
    for d in res.errors:
        got.setdefault(d[3], []).append(d[1])
    for c, (a, b) in zip(cases, ranges):
        nd = c.meta["ndecl_lines"]
        expected = {}
        for li, nm in c.meta["undef_decls"]:
            expected[a + li] = nm
        for li, nm in c.meta["undef_body"]:
            expected[a + nd + 1 + li] = nm
        mine = {ln: msgs for ln, msgs in got.items() if a <= ln <= b}
        problems = []
        for ln, nm in expected.items():
            msgs = mine.get(ln, [])
            if not any(UNDEF_RE.search(m) and UNDEF_RE.search(m).group(1) == nm for m in msgs):
                problems.append(f"line {ln - a}: use of `{nm}` has no visible binding but no undefined-reference error was reported")
        for ln, msgs in mine.items():
            if ln not in expected:
                problems.append(f"line {ln - a}: unexpected error {msgs[0]!r}")
        if problems:
            mism.append(core.Mismatch(c, "wrong-diagnostics", res.summary(), "; ".join(problems[:4])))
    return mism


def run(tier, seed):
    started = time.time()
    quick = tier == "quick"
    kinds = KINDS
    skels = seqs(1, 2, True, kinds)
    if quick:
        skels += [s for s in seqs(2, 1, False, kinds) if depth_of(s) == 2]
    else:
        skels += [s for s in seqs(2, 2, False, kinds) if depth_of(s) == 2]
    prelude0 = BASE + "opq :: (v: i64) -> i64 { v }\n"
    configs = [(), ("a",), ("b",), ("a", "b")]
    all_mism = []
    total = 0
    n_accept = n_reject = 0
    compiles = 0
    outcomes = set()
    sample = []
    import concurrent.futures
    for cfg in configs:
        prelude = prelude0 + "".join(f"{n} :: {1000 if n == 'a' else 2000};\n" for n in cfg)
        cases = [build_case(s, set(cfg), i) for i, s in enumerate(skels)]
        total += len(cases)
        acc = [c for c in cases if c.accept]
        rej = [c for c in cases if not c.accept]
        n_accept += len(acc)
        n_reject += len(rej)
        outcomes |= {c.expected for c in acc}
        tag = "c05" + "".join(cfg)
        runner = core.Runner(tag, batch_size=100, prelude=prelude)
        all_mism += runner.run(acc)
        compiles += runner.compiles
        # reject batches with exact line sets
        batches = [rej[i:i + 100] for i in range(0, len(rej), 100)]
        jobn = [0]
        with concurrent.futures.ThreadPoolExecutor(core.THREADS) as pool:
            while batches:
                futs = []
                for b in batches:
                    jobn[0] += 1
                    for c in b:
                        c.prelude = prelude
                    futs.append((b, pool.submit(check_reject_batch, runner, b, prelude, os.path.join(runner.root, f"rej{jobn[0]}"))))
                batches = []
                for b, f in futs:
                    compiles += 1
                    r = f.result()
                    if r is None:
                        if len(b) == 1:
                            all_mism.append(core.Mismatch(b[0], "compiler-panic", {}, "the compiler crashed on this case"))
                        else:
                            h = (len(b) + 1) // 2
                            batches += [b[:h], b[h:]]
                    else:
                        # confirm alone
                        for m in r:
                            if len(b) == 1:
                                all_mism.append(m)
                            else:
                                batches.append([m.case])
        if not sample:
            sample = [{"case": c.key, "body": c.body[:600], "expected": c.expected, "accept": c.accept} for c in (cases[5], cases[len(cases) // 2], cases[-1])]
    # the same skeletons with the two names spelled as built-in names (`u8`/`nil`, `f32`/`char`): a use with no visible binding
    # is the built-in, everything else shadows it (the `nil =>` arm form is left out: its `nil` would be shadowed too)
    bkinds = [k for k in KINDS if not k.startswith("switch:")]
    bskels = seqs(1, 2, True, bkinds)
    if not quick:
        bskels += [s for s in seqs(2, 1, False, bkinds) if depth_of(s) == 2]
    n_builtin = 0
    for pi, spell in enumerate(BUILTIN_POOLS):
        for cfg in configs:
            prelude = prelude0 + 'hlp :: #import("hlp.capy");\n' + "".join(f"{spell[n]} :: {1000 if n == 'a' else 2000};\n" for n in cfg)
            cases = [build_case(s, set(cfg), i, spell) for i, s in enumerate(bskels)]
            assert all(c.accept for c in cases)
            runner = core.Runner(f"c05b{pi}" + "".join(cfg), batch_size=100, prelude=prelude)
            runner.extra_files = {"hlp.capy": HELPER}
            all_mism += runner.run(cases)
            compiles += runner.compiles
            n_builtin += len(cases)
            total += len(cases)
            n_accept += len(cases)
            outcomes |= {c.expected for c in cases}
    # "a global of the same file": an imported file whose functions and *data globals* mention its own globals a / b by their
    # bare names, while the importing file defines (or not) unrelated globals of the same names; the imported globals are
    # reached first from the importing file, then from inside the imported file, and the other way round
    n_cross = 0
    other = ("a : i64 : 3000;\nb : i64 : 4000;\nva :: a;\nvb : i64 : b;\npab :: i64.[a, b];\nfa :: () -> i64 { a }\nfb :: () -> i64 { b + va }\n"
             "sum_all :: () -> i64 { va + vb + pab[0] + pab[1] }\n")
    uses = {"data-first": "pr(o.va); pr(o.vb); pr(o.pab[0]); pr(o.pab[1]); pr(o.fa()); pr(o.fb()); pr(o.sum_all());",
            "functions-first": "pr(o.sum_all()); pr(o.fb()); pr(o.fa()); pr(o.pab[1]); pr(o.pab[0]); pr(o.vb); pr(o.va);"}
    want = {"data-first": [3000, 4000, 3000, 4000, 3000, 7000, 14000], "functions-first": [14000, 7000, 3000, 4000, 3000, 4000, 3000]}
    cross_cases = []
    for cfg in configs:
        for uname, ucode in uses.items():
            own = "".join(f"pr({n});" for n in cfg)
            c = Case(f"cross-file/{'+'.join(cfg) or 'none'}/{uname}", ucode + " " + own,
                     "".join(f"{v} " for v in want[uname] + [1000 if n == "a" else 2000 for n in cfg]))
            c.meta["globals"] = cfg
            cross_cases.append(c)
    for cfg in configs:
        prelude = prelude0 + 'o :: #import("o.capy");\n' + "".join(f"{n} :: {1000 if n == 'a' else 2000};\n" for n in cfg)
        runner = core.Runner("c05x" + "".join(cfg), batch_size=1, prelude=prelude)
        runner.extra_files = {"o.capy": other}
        mine = [c for c in cross_cases if c.meta["globals"] == cfg]
        all_mism += runner.run(mine)
        compiles += runner.compiles
        n_cross += len(mine)
        total += len(mine)
        n_accept += len(mine)
    if n_accept < 100 or n_reject < 100 or len(outcomes) < 50:
        core.machinery_failure("vacuous run")
    coverage = {
        "states": total,
        "transitions": total * 2,
        "traces_validated_against_impl": total,
        "exhaustive": True,
        "rule": "a case = (binding skeleton, global configuration); every case is compiled by the real CLI; cases without undefined uses are executed",
        "bounds_completed": {"skeletons": len(skels), "global_configurations": 4, "nesting_depth": 2, "constructs": KINDS,
                             "executed": n_accept, "diagnostic_line_sets_checked": n_reject,
                             "builtin_name_pools": [sorted(p.values()) for p in BUILTIN_POOLS], "builtin_name_cases": n_builtin, "cross_file_cases": n_cross},
        "distinct_outcomes": len(outcomes),
        "compilations": compiles,
        "samples": sample,
    }
    core.finish("C05", tier, seed, started, coverage, all_mism, explains, assumptions=[
        "uses inside a lambda or comptime body of a name bound in the creating function's body are not generated",
    ])


def depth_of(items):
    d = 0
    for it in items:
        if it[0] == "child":
            d = max(d, 1 + depth_of(it[2]))
    return d


def explains(model, m):
    if model == "comptime-in-generic-todo":
        # a comptime block inside the body of a function with comptime parameters
        return m.kind == "compiler-panic" and re.search(r"cparam:\w\([^()]*(\([^()]*\)[^()]*)*comptime:", m.case.key) is not None \
            and "not yet implemented" in (m.detail or "")
    return False
