#!/bin/bash
# runs every registered thorough check one after the other, logging exit status, wall time and peak RSS
cd /verif || exit 2
out=work/thorough_all.log
: > $out
for id in $(python3 -c "import json; print(' '.join(c['property_id'] for c in json.load(open('MANIFEST.json'))['checks']))"); do
  if [ -n "$1" ] && ! echo " $* " | grep -q " $id "; then continue; fi
  /usr/bin/time -f "$id thorough: exit %x wall %es maxrss %MkB" -a -o $out ./check $id thorough > work/thorough_$id.log 2>&1
  tail -1 work/thorough_$id.log | cut -c1-200 >> $out
done
cat $out
