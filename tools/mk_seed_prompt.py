#!/usr/bin/env python3
"""mk_seed_prompt.py <ID> <round>  -> /tmp/seed<round>_prompt_<ID>.txt (worktree /tmp/wt<round>-<ID>)
Built from the round-2 prompt; the list of earlier seeded changes is regenerated from seeded/*/meta.json."""
import glob, json, os, re, sys
pid, rnd = sys.argv[1], sys.argv[2]
base = open(f"/tmp/seed2_prompt_{pid}.txt").read()
head = base.split("IMPORTANT: earlier seeded changes")[0]
head = head.replace(f"/tmp/wt2-{pid}", f"/tmp/wt{rnd}-{pid}").replace(f"/tmp/wt2-mod-{pid}", f"/tmp/wt{rnd}-mod-{pid}")
earlier = []
for m in sorted(glob.glob(f"/verif/seeded/{pid}-*/meta.json")):
    earlier.append("- " + json.load(open(m))["summary"])
text = head + ("IMPORTANT: earlier seeded changes for this property already exist; yours must be of a DIFFERENT kind, in a different "
               "function / mechanism, and need a different trigger. The earlier ones were:\n" + "\n".join(earlier) + "\n")
out = f"/tmp/seed{rnd}_prompt_{pid}.txt"
open(out, "w").write(text)
print(out, len(earlier), "earlier")
