#!/usr/bin/env python3
"""summarises the replay files of a property: kind, case key, first differing output line"""
import glob, json, sys
prop = sys.argv[1]
for f in sorted(glob.glob(f'/verif/replays/{prop}/*.json')):
    r = json.load(open(f))
    if r.get('engine') != 'progmc':
        print(r.get('signature'), '|', r.get('input', '')[:160].replace('\n', '\\n'), '|', r.get('detail', '')[:160]); continue
    exp = (r.get('expected_stdout_of_case') or '').split('\n')
    obs = (r['observed'].get('out') or '').split('\n') if isinstance(r['observed'], dict) else []
    diff = ''
    for i, (a, b) in enumerate(zip(exp, obs)):
        if a != b:
            body = [l for l in r['files']['main.capy'].split('\n') if l.startswith('    ')]
            diff = f'line {i}: expected {a!r} got {b!r}'
            break
    print(r['kind'], r['case'], '|', diff or (r['detail'] or '')[:200].replace('\n', ' '))
