#!/usr/bin/env python3
"""prints a markdown table of what the last run of every check covered (from evidence/*.json)"""
import glob, json, os
root = os.path.dirname(os.path.dirname(os.path.abspath(__file__)))
print("| property | tier | states / cases | traces validated against the implementation | distinct outcomes | wall (s) | known findings hit |")
print("|---|---|---|---|---|---|---|")
for f in sorted(glob.glob(os.path.join(root, "evidence", "C??.json"))):
    e = json.load(open(f))
    c = e["coverage"]
    kf = c.get("known_findings_hit") or []
    print(f"| {e['property_id']} | {e['tier']} | {c.get('states')} | {c.get('traces_validated_against_impl')} | {c.get('distinct_outcomes', '')} | "
          f"{e.get('wall_s', 0):.0f} | {', '.join(k['finding'][:40] for k in kf) or '-'} |")
