#!/usr/bin/env python3
"""re-generates the table inside DESIGN.md §11.5 from seeded/*/meta.json (keeps the surrounding text)"""
import os, re, subprocess
root = os.path.dirname(os.path.dirname(os.path.abspath(__file__)))
table = subprocess.run(['python3', os.path.join(root, 'tools', 'seed_table.py')], capture_output=True, text=True).stdout.strip()
p = os.path.join(root, 'DESIGN.md')
s = open(p).read()
i = s.index('| seeded change | property |')
j = s.index('\n\n', i)
s = s[:i] + table + s[j:]
open(p, 'w').write(s)
print(table.count('\n') - 1, 'seeds')
