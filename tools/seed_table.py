#!/usr/bin/env python3
"""prints the markdown table of seeded changes (DESIGN.md §11.5) from seeded/*/meta.json and verif_result files"""
import glob, json, os, re
rows = []
for d in sorted(glob.glob(os.path.join(os.path.dirname(os.path.dirname(os.path.abspath(__file__))), "seeded", "*"))):
    name = os.path.basename(d)
    try:
        m = json.load(open(os.path.join(d, "meta.json")))
    except OSError:
        continue
    res = ""
    for f in sorted(glob.glob(os.path.join(d, "verif_result_*.txt"))):
        t = open(f).read()
        mm = re.search(r"exit=(\d+)\s+wall=(\d+)s.*?violation lines: (\d+)", t, re.S)
        if mm:
            res = f"exit {mm.group(1)}, {mm.group(3)} VIOLATION lines, {mm.group(2)} s"
    summary = (m.get("summary") or "").replace("|", "/").replace("\n", " ")
    if len(summary) > 230:
        summary = summary[:227] + "..."
    hist = m.get("history", "")
    rows.append(f"| `{name}` | {m.get('property')} | {summary} | {res or m.get('caught_by', '')} | {'strengthened: ' + hist if hist else 'caught as built'} |")
print("| seeded change | property | what it does | `./check <prop> quick` on it | note |")
print("|---|---|---|---|---|")
print("\n".join(rows))
