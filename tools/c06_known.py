#!/usr/bin/env python3
"""Builds the committed known-findings data of C06 (and the in-process half of C07) from `--emit-known` runs.

  capy-verif front-mc quick --emit-known      -> work/emit-known/C06.quick.txt     (hash + signature per failing input)
  capy-verif front-mc thorough --emit-known   -> work/emit-known/C06.thorough.txt

For every panic signature: known_cases/C06/<slug>.txt (the hashes of exactly the failing inputs seen) and one
`known:` line in known_findings.txt that excuses only those inputs (`cases=` file): a new failing input with the
same signature is still a VIOLATION.  Before a signature is listed, its shortest single-file input is replayed
through the real CLI; a signature the CLI does not reproduce is *not* listed (it would be a harness artefact).
"""
import collections
import hashlib
import json
import os
import re
import shutil
import subprocess
import sys
import tempfile

VERIF = os.path.dirname(os.path.dirname(os.path.abspath(__file__)))
CAPY = os.path.join(VERIF, "target", "release", "capy")


def slug_of(sig):
    s = re.sub(r"[^a-z0-9]+", "-", sig.lower()).strip("-")
    return s[:70] + "-" + hashlib.sha1(sig.encode()).hexdigest()[:6]


def cli_reproduces(text, mod):
    """-> (bool, observed) for a single-file input"""
    d = tempfile.mkdtemp(prefix="c06k")
    try:
        files = {}
        if "#- " in text:
            cur = None
            for line in text.splitlines(keepends=True):
                m = re.search(r"#- (\S+)", line)
                if m:
                    cur = m.group(1)
                    files[cur] = ""
                elif cur:
                    files[cur] += line
        else:
            files["main.capy"] = text
        for n, t in files.items():
            p = os.path.join(d, n)
            os.makedirs(os.path.dirname(p), exist_ok=True)
            open(p, "w").write(t)
        try:
            # plain build first; `--verbose-types local` is the CLI mode that also runs the unsafe-to-compile walk
            # (which the in-process pipeline always runs)
            for extra in ((), ("--verbose-types", "local")):
                r = subprocess.run([CAPY, "build", "main.capy", "--mod-dir", mod, "--color", "never", "--no-exec", *extra], cwd=d,
                                   stdout=subprocess.PIPE, stderr=subprocess.STDOUT, timeout=20)
                out = r.stdout.decode("utf8", "replace")
                bad = r.returncode == 101 or "panicked at" in out or "Error defining function" in out
                m = re.search(r"panicked at ([^\n]*)\n([^\n]*)", out)
                if bad:
                    return True, (m.group(0)[:160] if m else f"exit {r.returncode}") + (" with --verbose-types local" if extra else "")
            return False, f"exit {r.returncode}"
        except subprocess.TimeoutExpired:
            return True, "timeout (20 s)"
    finally:
        shutil.rmtree(d, ignore_errors=True)


def main():
    prop = sys.argv[1] if len(sys.argv) > 1 else "C06"
    by_sig = collections.defaultdict(set)
    for tier in ("quick", "thorough"):
        p = os.path.join(VERIF, "work", "emit-known", f"{prop}.{tier}.txt")
        if not os.path.exists(p):
            continue
        for line in open(p):
            if line.startswith("#") or not line.strip():
                continue
            h, sig = line.rstrip("\n").split(" ", 1)
            by_sig[sig].add(h)
    ev = json.load(open(os.path.join(VERIF, "evidence", f"{prop}.json")))
    shortest = {s["signature"]: s["shortest_input"] for s in ev["coverage"].get("failure_signatures", [])}
    mod = os.path.join(VERIF, "work", "progmc", "mod.c01")
    out_dir = os.path.join(VERIF, "known_cases", prop)
    shutil.rmtree(out_dir, ignore_errors=True)
    os.makedirs(out_dir, exist_ok=True)
    lines = []
    for sig, hashes in sorted(by_sig.items(), key=lambda kv: -len(kv[1])):
        slug = slug_of(sig)
        example = shortest.get(sig)
        note = "not replayed (no example in this tier's evidence)"
        if example is not None:
            ok, obs = cli_reproduces(example, mod)
            note = f"CLI replay of the shortest input {example.strip()[:70]!r}: {'reproduced' if ok else 'NOT reproduced'} ({obs})"
            if not ok:
                print(f"SKIPPED (CLI does not reproduce): {sig}\n   {example!r}")
                continue
        with open(os.path.join(out_dir, slug + ".txt"), "w") as f:
            f.write(f"# {sig}\n" + "\n".join(sorted(hashes)) + "\n")
        text = (f"the compiler fails with `{sig}` on {len(hashes)} enumerated inputs (token strings / single-token edits of the corpus), "
                f"listed by hash in known_cases/{prop}/{slug}.txt; {note}").replace("\n", " ")
        lines.append(f"known: property={prop} finding={slug} signature={sig} cases=known_cases/{prop}/{slug}.txt :: {text}")
    kf = os.path.join(VERIF, "known_findings.txt")
    old = [l for l in open(kf).read().split("\n") if not (l.startswith(f"known: property={prop} ") and " cases=known_cases/" in l)]
    while old and old[-1] == "":
        old.pop()
    open(kf, "w").write("\n".join(old + lines) + "\n")
    print(f"{len(lines)} findings, {sum(len(v) for v in by_sig.values())} cases")


if __name__ == "__main__":
    main()
