#!/usr/bin/env python3
"""Generates /verif/MANIFEST.json from the table below (one place to keep it consistent)."""
import json
import os
import subprocess

VERIF = os.path.dirname(os.path.dirname(os.path.abspath(__file__)))

# id -> (engine, technique, level text, level note, design ref)
CHECKS = {
    "C01": (
        "progmc c01",
        "bounded-depth state-space exploration: every statement sequence of length <= k over an 85-statement menu on a fixed typed environment, each compiled and executed by the real CLI, against a Python reference semantics of every menu statement",
        "A program is a fixed prologue declaring a 15-variable environment (ints of four widths, bool, char, array, slice, struct, enum, optional, error union, ^mut pointer, function pointer), every sequence of <= 2 (thorough 3) statements from an 85-statement menu (arithmetic, casts, compound assignment, aggregate copies, enum/optional/error-union construction, switch with payloads and default arm, #unwrap/#is_variant, .try chains, pointer writes through three aliases, calls of helpers / lambdas / function pointers / varargs, while/loop/labelled break/continue, labelled block and if as values, early return) and an epilogue printing the whole environment: 7311 (thorough 621436) programs compiled by the real CLI and executed, stdout compared byte for byte with the reference semantics; plus a process-level family (main result as exit status for 7 result types, void main, early return, the four language-defined runtime faults: message, status 1, nothing after), an equality family (x == y, x != y, y == x for y = x and every single-leaf / variant mutant of x over 141 types incl. arrays of sum types) and the discriminant-pattern family shared with C11.",
        "Sequences of <= 3 statements (not 40), nesting <= 3, 8 globals; sub-expressions with side effects only at statement level so no evaluation order is assumed.",
        "§4 C01",
    ),
    "C02": (
        "progmc c02",
        "bounded-exhaustive enumeration of (type, placement, write kind, value shape) cases compiled and executed by the real CLI against a value-semantics model, with guard values on both sides of every written place",
        "For each of 129 types (13 scalars; byte-array structs of every size 1..64; 18 mixed-alignment structs incl. size < stride, SSE/INTEGER mixes and i128; 7 enums incl. custom discriminants and struct payloads; 7 optionals; 6 error unions; 8 arrays incl. nested and arrays of sum types; 5 structs of sum types) x 3 placements (local between guard locals, field between guard fields of a wrapper struct, middle element of a [3]T) x up to 11 write kinds (plain store, copy then overwrite the source, store through ^mut, return by value, pass+return by value between guard arguments, partial mutation of a copy, anonymous->named struct with reordered fields, element-type array cast, default value, a literal that reads the place it is assigned to with same-typed members rotated, a call whose argument and result are the same place) x every top-level shape of the written value (each variant, some/nil, ok/each error): plus 1 / 2 / 3 / 5 values of every type passed to a variadic parameter between guards: every leaf of the guards, the written place, its neighbours and every copy is printed and compared with plain value semantics (quick: byte structs use 4 of the kinds; thorough: all).",
        "Only leaf values are observed (padding is not a live value); stack adjacency of locals is whatever the code generator chooses, adjacency is forced by the field and element placements; globals are immutable in Capy and are not a write target.",
        "§4 C02",
    ),
    "C10": (
        "progmc c10",
        "bounded-exhaustive enumeration of (container form, element type, length, access kind, index type, index value) and (sum type, placement, held variant, requested variant) cases, each compiled by the real CLI and executed in its own process, against a reference model of in-range access and of the abort behaviour",
        "10 container forms (array, slice, ^array, ^mut array, ^^array, slice in a struct field, ^slice, outer and inner level of a nested array, array in a struct field) x 4 element types (u8, i32, i64, 12-byte struct) x lengths 1..4 x read / write / compound assignment / ^mut of the element x runtime indexes (through an opaque function) of type u8/u16/u32/u64/usize/u128 with values 0..n+4 and the type's boundaries 2^k-1, 2^k (u128: 2^64+k) (quick: full index alphabet for i32 x n=3, usize boundaries elsewhere; thorough: full product) and literal indexes 0..n+1; big arrays ([100]T, [20000]T, [6][16]i32) indexed with u8 / u16 / u32 values whose product with the element stride exceeds the index type; 12 sum types (enums with/without payloads and custom discriminants, optionals, ?^i32, error unions) x 5 placements x every (held, requested) pair for #unwrap incl. the 1-argument form; a slice that the index expression itself re-points at an array of another length (6 -> 2 and 2 -> 6, read and write, indexes 0..7, guard fields around both arrays); every 3-variant enum whose discriminants are automatic or hand-written from {0, 1, 2, 5} (at least one hand-written) x every (held, requested) pair. In range: exactly that element is read/written (whole container, the aliased array and guards printed afterwards). Out of range / wrong variant: the sentinel before the access is printed, then the message, wait status = exit 1 (not a signal), the sentinel after it never appears. Literal index >= n on a fixed array: rejected at compile time.",
        "The out-of-range access itself cannot be observed after exit; clean exit 1 for every huge index (2^31 .. 2^128-1) is what shows no wild access happened first. Arrays of zero-sized elements are not generated.",
        "§4 C10",
    ),
    "C04": (
        "progmc c04",
        "bounded-exhaustive enumeration of (result type, value, block placement) cases: the comptime copy (evaluated by the real comptime JIT) and the runtime copy of the same expression are both printed by an executable built by the real CLI and compared with the model value",
        "33 result types (every int width incl. 128-bit at boundary values, f32/f64, bool, arrays incl. nested, structs incl. nested and float fields, enums with payloads and custom discriminants, optionals, error unions, arrays/structs of sum types; two values per top-level shape) x 9 placements (annotated global whose block yields the literal, annotated global whose block yields a local of the annotated type, local ::, local :=, inline argument, nested comptime, block with locals and a loop, block calling a helper, field of a struct literal) + 16 computing blocks (loops, helper calls, const-global reads, wrap-around at 8/32 bits, shifts, signed division, float->int, narrowing) each as local and as global + weakly typed bodies (untyped literals, arithmetic, locals; 8 integer types x 5-8 bodies) flowing into 7 kinds of destination (plain / optional / error-union annotation, `::` optional, argument, optional argument, struct members) and untyped array literals into slices / arrays / optional arrays, each against the runtime copy + `type` results used as annotations + strings + 13 side-effect programs (marker printed exactly once by the compiler, never by the program, under 0/1/3 uses, in a loop, in a function called twice, second run; value-yielding, void and zero-sized blocks).",
        "Bodies are deterministic; pointer- and function-valued results are rejected by design and not generated; values beyond the listed ones are not covered.",
        "§4 C04",
    ),
    "C05": (
        "progmc c05",
        "bounded-exhaustive enumeration of binding skeletons x global configurations, each compiled by the real CLI, against a reference resolver (exact set of undefined-reference lines, or printed values of every use)",
        "Every item sequence of <= 3 items with at most one nested construct over {declare a, declare b, block, if, while, switch arm with argument a/b (with a `nil` arm and with a default arm), local lambda with parameter a/b, global function with comptime parameter a/b, comptime block with tail a/b}, nested to depth 2, a use of `a` and of `b` at every program point, x 4 global configurations (global a / b present or absent): programs with no undefined use are executed and every use must print the value of the binding the reference resolver picks; for the others the set of `undefined reference` diagnostics must be exactly the predicted lines and nothing else may be reported. The same skeletons with the two names spelled as built-in names (`u8`/`nil`, `f32`/`char`; quick: depth 1): every binding shadows the built-in, a use with no visible binding is the built-in (written in a form only valid for that resolution).",
        "Uses inside a lambda / comptime body of a name bound in the creating function are not generated (the statement does not decide them); identifier pools {a, b}, {u8, nil}, {f32, char}; depth 2; one cross-file family (an imported file whose data globals and functions name its own globals a / b while the importing file defines, or not, unrelated globals of the same names).",
        "§4 C05",
    ),
    "C11": (
        "progmc c11",
        "bounded-exhaustive enumeration of (sum type, arm list) cases against the acceptance rule of the statement; every accepted switch executed on every variant x two payloads against a dispatch model",
        "20 sum types plus ~500 discriminant patterns (every assignment of {automatic, 0, 1, 2, 5} to 3 and 4 variants: exhaustive switch and the #is_variant matrix on every variant) (enums of 1..3 (thorough 4) variants with payload patterns none/u8/i64/struct and discriminants default or custom incl. 128, 200, 255; ?i32, ?struct, ?^i32, ?enum; Err!i32, Err!struct) x every arm list of length <= n+1 over {each variant fully qualified, each variant shorthand, `_`, a variant of a structurally identical foreign enum, an unknown shorthand, a non-type expression} (at most one non-own arm): accepted iff only own variants, none twice, and all covered or exactly one default arm which is last; accepted switches are executed for every variant with two payloads: exactly the arm of the variant runs, bound to the payload (default arm: the whole value). Plus switches over `distinct` wrappers of an enum, an optional and an error union, and over error unions whose two sides look alike (two structs with identical fields, two distincts of i32, enum!distinct u8).",
        "Lists that cover everything and also end in a default arm are executed but not judged for acceptance; 6-variant enums are not reached.",
        "§4 C11",
    ),
    "C13": (
        "progmc c13",
        "bounded-exhaustive enumeration of (context, expected type, provided nominal value) triples, each compiled by the real CLI, against the nominal acceptance rule; casts executed",
        "13 expected types (D1, D2 :: distinct i32; D3 :: distinct D1; DU :: distinct u8; identical enums E1, E2 and their variants; identical structs S1, S2; i32, u8, i64) x 12 provided nominal values x 7 contexts (annotation, argument, return, struct field, optional payload, assignment, array element) + binary `+` / `==` between every pair of distinct values + every mix of a distinct value with a *typed* value of its own underlying type (both orders of + * == <, compound assignment both ways, if/else branches; distincts of i32, u8, u32, u64, i64): accepted iff same nominal identity or variant -> own enum; untyped literals into every distinct integer type; explicit casts distinct <-> underlying executed and value-preserving.",
        "underlying -> distinct, anonymous struct -> named struct and casts between two different distinct types are not judged (the statement does not decide them).",
        "§4 C13",
    ),
    "C14": (
        "progmc c14",
        "bounded-exhaustive enumeration of (root, access chain, parenthesisation, operation) cases against a reference mutability judgement; accepted programs executed against a reference memory model with aliases",
        "24 roots (`:=` local, `::` local, value parameter, global, ^mut / ^ pointers bound by `:=`, by `::` and as parameters, pointers to arrays of pointers indexed through the pointer, a `^In` pointer held by a `:=` / `::` / annotated `:` / annotated `::` local or a parameter, where the pointer-typed place itself may be rebound iff the local is mutable; `^mut` pointers to a `^` / `^mut` pointer field; pointers returned by a call, bound to a local or used directly) x every well-typed chain of <= 3 (thorough 4) steps from {.field, [i], explicit deref, auto-deref, #unwrap} over a struct holding a struct, an array of structs, ^mut and ^ pointers, an optional struct, optional ^ / ^mut pointers, and arrays of ^ / ^mut pointers, optionally parenthesised x {=, +=, take ^, take ^mut and write through it}: accepted iff the place is writable by the statement's rule; accepted programs are executed and the root, every copy, and both pointees are printed and compared with a reference memory model.",
        "Paths that pass through immutable data and then through a ^mut pointer stored in it are not judged; pointers come only from ^e / ^mut e of a `:=` local.",
        "§4 C14",
    ),
    "C15": (
        "progmc c15",
        "bounded-exhaustive enumeration of the (expression kind, const position) matrix, each compiled by the real CLI, against the README's const rule; accepted cells executed",
        "24 integer expression kinds (literal, `::` local of literal / of `::` local / of comptime block, global, global of global, comptime global, global declared after use, imported global (of global), `:=` local, `::` of `:=`, `::` of `::` of `:=`, a local declared without a value (also assigned later, also behind a `::`), globals that are not const themselves (bound to a call, with and without a type annotation, and a global of such a global), `::` of call, call, struct member, runtime parameter, runtime arithmetic) x {array length, enum discriminant, comptime argument} and 16 type expression kinds x {annotation, comptime type argument, array element type}, comptime parameters in every position, also declared after / between runtime parameters: accepted iff const by the rule, rejections must be 'not constant' diagnostics; accepted array lengths are observed (`len`, last element) for lengths 1, 2, 5, 17, 100.",
        "Arithmetic on literals, parenthesised literals and a bare comptime block in the position are not judged; extern globals are not generated.",
        "§4 C15",
    ),
    "C16": (
        "progmc c16",
        "bounded-exhaustive enumeration of (generic template, sequence of instantiation tuples, same file / imported) cases; generic calls and hand-substituted monomorphic copies are both executed and compared with a Python model of the template",
        "11 generic templates with 1-3 comptime parameters (one with runtime and comptime parameters interleaved) (type, usize, struct type, distinct type) used in annotations, casts, array lengths, nested generic calls, inline header references `(comptime T: type, x: T) -> T`, varargs of T and field access x every sequence of 1..3 (thorough 4) instantiation tuples from the template's 3-5 tuple alphabet (equal tuples repeat, different tuples interleave) x generic defined in the same file / in an imported file: the generic calls and the calls of textually substituted copies print their results; both must equal the model. Plus comptime arguments spelled as named constants (of the same file or of an imported file, directly and through one or two aliases, types and lengths, every combination for the mixed template) while the calling file defines unrelated constants of the same names.",
        "The substituted copy is produced by textual substitution in the generator; comptime blocks inside generic bodies are not generated (the compiler does not implement them: see the C05 known finding).",
        "§4 C16",
    ),
    "C19": (
        "progmc c19",
        "bounded-exhaustive enumeration of call signatures exercised in both directions across the C boundary, with the host gcc as reference model of the x86-64 System V convention",
        "2055 (thorough ~3100) signatures: every single-parameter, return-only and identity signature over 13 scalars (every int width, f32, f64, bool, ^i32, ?^i32) and every struct of 1..3 fields (quick: identity signature only for the 3-field ones) over {u8, i16, i32, i64, f32, f64, [3]u8, [2]f32} plus byte-array structs of 15 sizes up to 64 and five 4/5-field mixes; every ordered pair over a 22-type selection; register pressure: 0..8 leading i64 fillers, 0..8 leading f64 fillers and mixed fillers before each of 12 structs, and the same pressure in front of every two-eightbyte struct with a result returned in memory. Each signature is exercised Capy -> C (extern function compiled by gcc prints what it received, returns a constant) and C -> Capy (C driver calls a Capy function through a function pointer); the transcripts must equal the generated constants.",
        "gcc -O1 on the host is the reference; only x86-64 SysV is executed; 128-bit scalars are not passed.",
        "§4 C19",
    ),
    "C20": (
        "progmc c20",
        "bounded-exhaustive enumeration of (permutation of globals, assignment of globals to files) configurations of base programs, each compiled by the real CLI and executed, differential against the known result",
        "11 base programs with 4 mutually dependent movable globals (const chain, type diamond, mutual recursion, comptime block depending on later globals, generic + const + type alias, enum with array-length constant, annotated constants whose annotation is a later alias, alias chain + annotated struct constant, distinct type + comptime constant, a chain of constants used as an array length, a chain of constants used as comptime argument and enum discriminant; thorough adds a 5-global base): quick = every permutation x 3 file assignments + every one of the 3^4 assignments to {main.capy, fa.capy, fb.capy} in canonical order; thorough = the full product of all permutations x all assignments for the 4-global bases (the 5-global base: every permutation x 3 assignments + every assignment in canonical order). Cross-file references are rewritten to `file.name` with the imports added (import cycles included); every file also defines an unrelated decoy global under the name of each movable global that lives in another file. Acceptance, stdout and exit status must equal the base program's result.",
        "4-5 movable globals per program (the quantifier allows 12).",
        "§4 C20",
    ),
    "C21": (
        "progmc c21",
        "exhaustive enumeration of configurations x compilation histories, each compiled repeatedly by the real CLI in fresh processes; byte equality of the object file and of the diagnostics is the oracle",
        "110 configurations (33 valid multi-file programs from C20 in three orders/splits, 44 invalid variants with type errors / undefined references / missing imports / errors in two files, the 24 example programs of the repository which use the core module, one generated 129-type program, 8 programs whose comptime block chooses between types with coinciding type ids, compiled 12 extra times) x 10 (thorough 23) compilations each: three fresh processes in fresh directories (one under a deeper path), one with ASLR disabled (setarch -R), one with a different environment, and after every ordered choice of <= 1 (thorough 2) predecessors out of 4 other programs (one with a larger object file) compiled in the same working directory with the stale out/ left in place, and after a padded variant of the configuration itself; main.o and the complete compiler output (timings and the working-directory prefix normalised) must be identical in all of them.",
        "Address-dependent hashing inside one process is observed through the repeated fresh processes, not enumerated; the link step is excluded (--no-exec).",
        "§4 C21",
    ),
    "C28": (
        "progmc c28",
        "bounded-exhaustive enumeration of import graphs over a directory tree and of single-deviation programs, each compiled by the real CLI (--verbose-ast local) and executed, against a reference path resolver",
        "All 512 directed graphs (self-imports and cycles included) over main.capy, a.capy, d/b.capy with every edge spelled in one of three ways (canonical, `./`-prefixed, detour through `x/..`) and the entry file named on the command line in one of four ways (main.capy, ./main.capy, d/../main.capy, .//main.capy) (quick: one edge spelling and one entry spelling per graph, rotating; thorough: all 12 combinations, plus graphs of <= 4 edges that involve d/e/c.capy): main prints `file.id` through every import path of length <= 3 and the output must be what the reference resolver predicts; every reachable file must be parsed exactly once and unreachable files never. 29 deviations: missing target, target not ending in .capy (3 forms), directory as target, targets outside cwd and module directory (5 forms incl. siblings whose names have the cwd / the module directory as prefix), a target inside the module directory by relative path, #mod of core / a good module / no mod.capy / no src / missing / 7 non-alphanumeric names, import relative to the importer rather than the cwd.",
        "<= 4 files in <= 3 directories (the quantifier allows 6 files).",
        "§4 C28",
    ),
    "C18": (
        "progmc c18",
        "bounded-exhaustive enumeration of types (reflection vs address arithmetic vs a reference layout calculator) and of type pairs (type-value equality), each program compiled with the real core module by the real CLI and executed",
        "106 types (8 sum types nested in sum types that are reflected before their inner types, 13 scalars, byte structs, 18 mixed structs, 7 enums, optionals, error unions, arrays, nestings, str/char/type/usize/isize/rawptr/any, pointers, slices, distinct types incl. distinct of distinct, ?^T, [0]T, structs of pointers/slices/types/enums): size_of / align_of / stride_of at runtime and inside comptime, the type info of each kind (int width and signedness, float width, array length / element type / element stride, pointer target and mutability, distinct sub type, struct member count / names / types / offsets, enum variant count / discriminant offset / per-variant discriminant and payload size, optional and error-union discriminant offset and is_non_zero), member offsets and element strides measured by address arithmetic on a real value, and `any.ty`; a 51 x 51 type-equality matrix (equal iff same type).",
        "64-bit host only; the reference layout calculator is written from the documented representation rules; the tag position is taken from reflection and the reference, not from byte-diffing.",
        "§4 C18",
    ),
    "C22": (
        "capy-verif lex-mc",
        "bounded-exhaustive input enumeration against invariants (every string <= k over token-class alphabets, every <= 3-word sequence) on the real lexer",
        "Every string of length <= 4 (thorough 5) over two 24-symbol alphabets covering every token-start class, every sequence of <= 3 words from a 94-word list with and without separating space, and every corpus file are lexed by the real lexer::lex; totality, contiguity, char boundaries, Tokens::iter/range agreement and kind/text agreement (table derived from tokenizer.txt at run time) are checked on every one. Complete inside the bound; nothing is sampled.",
        "Trusts the regex crate's reading of tokenizer.txt's patterns; inputs longer than the bound and characters outside the alphabets are not covered.",
        "§4 C22",
    ),
    "C23": (
        "capy-verif parse-mc",
        "bounded-exhaustive input enumeration with a fuel hook (all token strings <= k, every single-token edit of the corpus, nesting and length pumps) on the real lexer+parser",
        "Every sequence of <= 3 (thorough 5) spellings over a 50-spelling token alphabet and <= 6 (thorough 7) over a reduced 16-spelling one, every corpus snippet with every single-token deletion/duplication/swap/replacement, 34 nesting families to depth 200 and 18 flat families to 8000-32000 repetitions are parsed as source file and as REPL line by the real parser; panics, non-termination (parser fuel, hook H2), tree text = input, range nesting, error locations and roughly-linear step counts are checked on every one.",
        "Termination is decided by a step budget of 4000 + 2000 steps per token; token streams the lexer cannot produce are not explored; length 8 of the quantifier is not reached.",
        "§4 C23",
    ),
    "C25": (
        "capy-verif linecol-mc + progmc c25",
        "bounded-exhaustive enumeration of (text, offset) pairs against the definition; exhaustive rendering of every diagnostic of a parse/front-end sweep; bounded-exhaustive enumeration of multi-file programs with one erroneous token compiled by the real CLI",
        "All 488281 strings of length <= 8 over {a, \\n, \\r, \\t, e-acute} x every byte offset are checked against the definition of line and column; every syntax diagnostic of an exhaustive parse sweep (token strings <= 3, thorough 4; corpus and its single-token edits) and every front-end diagnostic of the corpus is rendered by the real Diagnostic::display and its header compared with the 1-based reference position of range.start. Program level: one erroneous token (type mismatch = type-checker diagnostic, undefined reference = lowering diagnostic) in the entry file, an imported file or a file imported by an imported file x 0..5 (thorough 0..11) leading lines of that file x leading lines of the other files x indentation (none, spaces, tab) x a multi-byte character before the token: the header printed by the real CLI must name that file and the token's own line and column.",
        "Program level: two diagnostic kinds whose range starts at a single token; other kinds are covered in process only.",
        "§4 C25",
    ),
    "C26": (
        "capy-verif topo-mc",
        "explicit-state model checking (stateright BFS) of a model whose state embeds the real TopoSort, plus conformance replay of recorded InferenceCtx::finish traces",
        "Breadth-first exploration of every history over 3 items x 6 rounds and 4 items x 3 rounds (thorough: 3x8 and 4x6) in which each offered item completes or registers any non-empty set of dependencies on uncompleted items, cycle-breaking rounds in every order; every transition calls the real TopoSort and every state compares its answers (peek_all, peek_all_cyclic, in_cycle, is_empty, len) with a ghost reference scheduler. The scheduling traces of the real InferenceCtx::finish for every corpus program (hook H3) are replayed through the same transition function and must stay inside the model's alphabet.",
        "Bounded to 4 items and 8 rounds; the usage protocol is the one in the property (checked against real traces, not assumed).",
        "§4 C26",
    ),
    "C03": (
        "progmc c03",
        "bounded-exhaustive enumeration of control skeletons against a defer-stack reference interpreter, each compiled and executed by the real CLI",
        "Every control skeleton over {defer, defer whose expression contains its own conditional break of a labelled block, print, block, labelled block, while, labelled while, while whose condition block breaks out of the loop, loop, if, break, break `l, continue, continue `l, return, .try} with <= 4 items / depth 2 (thorough: <= 5 items / depth 3: 52970 skeletons), as the body of six function forms (`-> ?i32` and `-> Err!i32` with a tail value; void, `-> ?void` and `-> Err!void` bodies that fall off their end; `-> Nothing` for a data-less error type `Nothing :: struct {}`, so that `.try` propagates into a zero-sized result; quick: the five extra forms up to 3 items), is compiled by the real CLI and run with both values of the branch-driving parameter; the printed character sequence (one letter per defer and per print) must equal the interpreter's, which checks exactly-once, LIFO, inner-before-outer and not-reached-not-run in one comparison.",
        "Skeletons beyond the bound (7 items, depth 4) are not reached; deferred expressions are single prints or the one jump-containing form.",
        "§4 C03",
    ),
    "C09": (
        "progmc c09",
        "bounded-exhaustive enumeration of (value, spelling, context) literal cases compiled (and executed) by the real CLI against the fits-the-type rule and the written value",
        "29 values near every integer type boundary x up to 12 spellings (plain, four `_` placements, every exact exponent form, hex upper/lower, binary) x 12 annotated types (accept iff it fits; accepted ones print the value), 9 further typed positions (optional annotation / argument / struct member / return value, plain struct member, return value, array element, assignment, error-union annotation) and 7 unannotated contexts (local, const, +0, /2, array element, global, comparison, argument); every printable char literal, every `\\c` escape valid or not in char and string literals, 30 float literals at f32/f64.",
        "Values are < 2^64; negative numbers are an operator applied to a literal; an unannotated global may be rejected when the value exceeds the default type.",
        "§4 C09",
    ),
    "C08": (
        "progmc c08",
        "bounded-exhaustive enumeration of (type, operator, operand tuple) and (source, target, value) over boundary values, compiled and executed by the real CLI, against big-integer / IEEE reference arithmetic",
        "Every integer type (all 12 widths in both tiers) x 16 binary and 3 unary operators x all pairs of 14 boundary operands, at runtime and inside comptime (60 tuples per case as one array-valued block, plus five scalar blocks typed as the result type); f32/f64 x 10 operators x 15x15 values incl. +-0, subnormal, inf, NaN; all 14x14 explicit numeric casts and all implicit conversions the language offers x boundary values; integer -> f32 / f64 at every rounding boundary (for each binade up to 2^63 the midpoints above neighbours with even / odd last bit and the integers just below / above them) as run-time u64 / negative i64 values and as integer literals typed as the float (annotated, cast, argument, negated, inside comptime); bool and char operators. Every evaluation is performed by an executable built by the real CLI and compared with Python big-integer arithmetic wrapped to the width, exact nearest-even int->float rounding and IEEE arithmetic.",
        "Operands are boundary values and their neighbours, not all 2^64 values; undefined cases of the statement (x/0, MIN/-1, shift >= width, out-of-range float->int) are not generated.",
        "§4 C08",
    ),
    "C12": (
        "capy-verif tyrel-mc",
        "bounded-exhaustive enumeration of ordered type pairs over a depth-<=2 type universe against the algebraic laws of the statement, on the real Ty relation methods",
        "All ordered pairs of a 9918-type universe (every primitive, weak literal types, nil, void, two structurally identical enums and their variants, 14-20 constructors nested twice, uids unique per declaration) are pushed through the real can_fit_into / can_cast_to / is_weak_replaceable_by / max (quick: depth<=1 x depth<=2 in both orders, 1.3e7 pairs; thorough: 9.8e7 pairs); laws L1-L5 of the statement are checked on every pair and no call may panic.",
        "Laws are checked on the relation methods themselves; Unknown/NotYetResolved/AlwaysJumps/File/function-item types are outside the universe; a uid never denotes two different types (no generic-instantiated nominal types).",
        "§4 C12",
    ),
    "C17": (
        "capy-verif layout-mc",
        "bounded-exhaustive enumeration of types x pointer widths against the statement's invariants, an independent reference layout calculator and the host C compiler's offsetof",
        "Every type of the depth-<=2 universe and every struct of <= 3 (thorough 4) members and enum of <= 3 (4) variants over 22 sized primitives, for pointer widths 64 and 32 (one process each), is laid out by the real calc_layouts (hook H1) and checked against (a) the invariants of the statement, (b) a reference calculator written from the statement, (c) gcc's sizeof/_Alignof/offsetof for every struct of C scalars; the first 2000 types are re-queried after all others (cache history).",
        "Depth 3 of the quantifier is reached only by aggregates of depth-0 members; no random types; 128-bit members are excluded from the C comparison.",
        "§4 C17",
    ),
    "C24": (
        "capy-verif prec-mc",
        "bounded-exhaustive enumeration of expression trees, printed by the precedence table (model) and read back from the real parser through the ast accessors",
        "Every tree of binary depth 2 over all 18 binary operators with 15 operand forms, depth 2 over 7 level representatives x 3 leaves, depth 3 over 5 representatives, every operator pair to depth 3 (thorough 4) and every operator triple to depth 3, and every prefix/postfix stack of height <= 3 at both operand positions of every level: each printed with minimal and with full parentheses, parsed by the real parser (zero syntax errors required) and compared node by node with the printed tree.",
        "The statement does not order prefix against postfix operators, so those are always printed with explicit parentheses; depth 5 of the quantifier is not reached.",
        "§4 C24",
    ),
    "C27": (
        "capy-verif mangle-mc",
        "bounded-exhaustive enumeration of entity descriptors through the real manglers with injectivity as the oracle; known collisions attributed by defect models",
        "Every file path of <= 3 (thorough 4) components over {a, b, 1, f1, 1a, a.b, a-b, src, a.capy, m} under the working directory and under the module directory x 670 (thorough 3894) entities (globals, lambdas, generic instances, comptime blocks and their data, indices 0/1/12/123 (thorough up to 999)) is mangled by the real Mangle impls (hook H1); no two different descriptors may share a name, and no name may equal `main` or an internal symbol.",
        "Entity identity = (file path, entity tuple); four known collision classes are excused only when the listed defect model makes the two descriptors equal.",
        "§4 C27",
    ),
    "C06": (
        "capy-verif front-mc",
        "bounded-exhaustive input enumeration and deviation-bounded (1 edit) mutation of the corpus through the complete in-process pipeline in supervised worker processes",
        "Every string of <= 2 (thorough 3) spellings over a 42-token alphabet in 4 wrappers, every corpus snippet unchanged (with codegen) and with every single-token edit, 34 nesting families to depth 200, diagnostics of every height 1..34 (thorough 1..120) x 3 kinds x start lines around the 2/3/4-digit boundaries, and 4 base values (struct, array, slice, enum variant) wrapped by every chain of <= 2 (thorough 3) wrappers out of {distinct, ^, ^mut, ?} x 16 accesses (field, .len, index, deref, assignment through it, .try, ==, call, cast, #unwrap, switch) go through the real lex/parse/validate/index/lower/infer(+comptime JIT)/codegen pipeline; panics, aborts, verifier errors, timeouts and diagnostic-rendering failures are reported per input.",
        "In-process pipeline with fake_file_system = true as the repository's own tests use; 64 KiB inputs and double edits are not reached; comptime user-code timeouts are counted as inconclusive.",
        "§4 C06",
    ),
    "C07": (
        "capy-verif unsafe-mc + progmc c07",
        "bounded-exhaustive enumeration in two halves: (in process) the C06 families with the error / unsafe / object equivalence as oracle; (program level) every near-valid program of the C05/C11/C13/C14/C15 enumerations compiled alone by the real CLI with --verbose-types local, the two end states `rejected` and `built` must be the only ones",
        "In process: on every compilation of the C06 families (token strings, every single-token edit of the corpus, pumps) no error diagnostic implies nothing is flagged unsafe and code generation succeeds, and a type error attached to an expression implies something is flagged unsafe. Program level: ~1 500 (thorough ~3 000) programs - each a well-typed program or the same program with exactly one type-, mutability-, const-, scope- or switch-breaking deviation, plus 24 programs in which comptime code reaches erroneous code in the same / an imported file (the erroneous function must not even run at compile time) - are built one by one by the real CLI in the mode in which its own assert is live; each must end either rejected (>= 1 error, no object, no executable, exit 1) or built (0 errors, object, executable, exit 0, nothing UNSAFE TO COMPILE, no internal error).",
        "Which end state a program should reach is decided by the other properties; findings are listed by input (hash lists / narrow input patterns), so a new input that breaks the equivalence is still reported.",
        "§4 C07",
    ),
}

NOT_YET = {
}

NOT_APPLICABLE = {
}


def main():
    hooks = subprocess.run(
        ["git", "-C", "/repo", "log", "--format=%H %s", "--grep=^verif hook"],
        capture_output=True, text=True,
    ).stdout.strip().splitlines()
    checks = []
    all_ids = [json.loads(l)["id"] for l in open(os.path.join(VERIF, "properties.jsonl"))]
    for pid in all_ids:
        if pid not in CHECKS:
            continue
        engine, technique, text, note, ref = CHECKS[pid]
        checks.append({
            "property_id": pid,
            "quick_cmd": f"./check {pid} quick",
            "thorough_cmd": f"./check {pid} thorough",
            "evidence_file": f"/verif/evidence/{pid}.json",
            "replay_cmd_template": "./check replay {path}",
            "engine": engine,
            "level_claimed": {"category": "model_checking", "text": text, "design_ref": ref},
            "level_note": note,
            "technique": technique,
        })
    not_applicable = []
    for pid in all_ids:
        if pid in CHECKS:
            continue
        reason = NOT_APPLICABLE.get(pid) or NOT_YET.get(pid) or "check not built yet in this round (designed in DESIGN.md §4); not claimed"
        not_applicable.append({"property_id": pid, "reason": reason})
    manifest = {
        "version": 1,
        "setup_cmd": "./check build",
        "hooks": {
            "guard": "--cfg capy_verif",
            "enable": "RUSTFLAGS='--cfg capy_verif' CARGO_TARGET_DIR=/verif/target cargo build --release (done by ./check for /repo -p capy and for /verif/harness)",
            "baseline_off_cmd": "cd /repo && cargo nextest run --workspace --no-fail-fast --tool-config-file pb:/w/lib/nextest.toml --profile pb --test-threads 8 --offline",
            "source_commits": [h.split()[0] for h in reversed(hooks)],
            "add_only": True,
        },
        "engines": [
            {"name": "capy-verif", "path": "/verif/harness", "kind_free_text": "Rust binary linking the real capy crates: bounded-exhaustive enumerators, stateright model, supervised in-process compiler workers",
             "serves_properties": [p for p in all_ids if p in CHECKS and CHECKS[p][0].startswith("capy-verif")]},
            {"name": "progmc", "path": "/verif/progmc", "kind_free_text": "Python: program IR, printer, reference interpreter, exhaustive typed enumerators, batching driver of the real capy CLI",
             "serves_properties": [p for p in all_ids if p in CHECKS and "progmc" in CHECKS[p][0]]},
        ],
        "checks": checks,
        "not_applicable": not_applicable,
        "notes": "All checks are bounded-exhaustive (model checking family): complete enumeration inside stated bounds against a reference model or invariants, executed on the real code. Known findings: /verif/known_findings.txt.",
    }
    with open(os.path.join(VERIF, "MANIFEST.json"), "w") as f:
        json.dump(manifest, f, indent=1)
        f.write("\n")
    print(f"{len(checks)} checks, {len(not_applicable)} not claimed")


if __name__ == "__main__":
    main()
