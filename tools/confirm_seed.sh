#!/bin/bash
# usage: confirm_seed.sh <ID> <prop> <name> [demo-relative-path]
# Takes the sub-agent's /tmp/wt-<ID>/SEED, confirms it (applies to /repo's tree, builds, the pinned suite passes with it,
# the demonstration fails with it and passes without it), runs ./check <prop> quick against it, reverts /repo, and files
# everything under /verif/seeded/<prop>-<name>/.
id=$1; prop=$2; name=$3; demo=${4:-demo.sh}
src=/tmp/wt-$id/SEED
dst=/verif/seeded/$prop-$name
[ -f "$src/patch.diff" ] || { echo "no $src/patch.diff"; exit 2; }
cd /repo || exit 2
[ -z "$(git status --porcelain -uno)" ] || { echo "/repo has local changes"; exit 2; }
git apply --check "$src/patch.diff" || { echo "patch does not apply to /repo HEAD"; exit 2; }
mkdir -p "$dst"
cp -r "$src"/. "$dst"/
mkdir -p /tmp/wt-$id/target/release
ln -sf /verif/target/release/capy /tmp/wt-$id/target/release/capy
git apply "$src/patch.diff"
cd /verif && ./check build > /tmp/confirm_build.log 2>&1 || { git -C /repo checkout -- .; echo "does not build"; exit 2; }
( cd "$src" && SKIP_BUILD=1 bash "./$demo" > /tmp/confirm_demo_with.log 2>&1 ); demo_with=$?
( cd /repo && cargo nextest run --workspace --no-fail-fast --tool-config-file pb:/w/lib/nextest.toml --profile pb --test-threads 8 --offline 2>&1 | tail -3 > /tmp/confirm_suite.log )
suite=$(grep -o "[0-9]* tests run: [0-9]* passed[^,]*, [0-9]* skipped\|[0-9]* tests run:.*" /tmp/confirm_suite.log | head -1)
start=$(date +%s)
./check $prop quick > /tmp/confirm_check.log 2>&1; rc=$?
end=$(date +%s)
git -C /repo checkout -- .
./check build > /tmp/confirm_build.log 2>&1
( cd "$src" && SKIP_BUILD=1 bash "./$demo" > /tmp/confirm_demo_without.log 2>&1 ); demo_without=$?
rm -rf /tmp/wt-$id/target
nviol=$(grep -c "^VIOLATION" /tmp/confirm_check.log)
{
  echo "seed: $prop-$name (sub-agent worktree $id), /repo at $(git -C /repo log --format=%h -n1)"
  echo "suite with the change: $suite"
  echo "demo with the change: exit $demo_with (non-zero = property violated); without: exit $demo_without"
  echo "check: ./check $prop quick   exit=$rc   wall=$((end-start))s   violation lines: $nviol"
  grep "^VIOLATION" /tmp/confirm_check.log | head -3 | cut -c1-300
  tail -1 /tmp/confirm_check.log | cut -c1-300
} | tee "$dst/verif_result_${prop}_quick.txt"
