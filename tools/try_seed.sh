#!/bin/bash
# usage: try_seed.sh <seed-dir> <prop> [tier]   -- applies <seed-dir>/patch.diff to /repo, runs the check, reverts
dir=$1; prop=$2; tier=${3:-quick}
cd /repo || exit 2
if ! git apply --check "$dir/patch.diff" 2>/dev/null; then echo "patch does not apply"; exit 2; fi
git apply "$dir/patch.diff"
cd /verif
start=$(date +%s)
./check $prop $tier > /tmp/try_seed.out 2>&1
rc=$?
end=$(date +%s)
git -C /repo checkout -- .
{
  echo "check: ./check $prop $tier   exit=$rc   wall=$((end-start))s   (/repo at $(git -C /repo log --format=%h -n1) + patch.diff)"
  grep -c "^VIOLATION" /tmp/try_seed.out | sed 's/^/violation lines: /'
  grep "^VIOLATION" /tmp/try_seed.out | head -3 | cut -c1-300
  tail -1 /tmp/try_seed.out | cut -c1-300
} | tee "$dir/verif_result_${prop}_${tier}.txt"
